#!/usr/bin/env python3
"""Regenerates MANIFEST.json from the per-property table below (keeps it valid at all times)."""
import json, os, sys
HERE = os.path.dirname(os.path.abspath(__file__))

CHECKS = {
 'C20': dict(technique='runtime monitor: documented option table (defaults, in-domain and out-of-domain value pools, cross-option rules) applied to every constructor; obj.config inspection; Cls(obj.config)==obj and kwargs-vs-dict differentials',
             text='Exploration by runtime monitoring: for 32 public classes (graders, samplers, comparers, schedules) the default construction is checked option by option against the documented defaults, every single-option deviation from in-domain and out-of-domain pools is constructed (acceptance, rejection, error class must be a configuration/validation error), plus unknown keys, non-dict configs, random multi-option combinations, 37 cross-option rule violations with positive controls, all documented answers formats (canonical tuple-of-dicts form), re-construction from obj.config and kwargs/dict equivalence.',
             note='Trusted: option table transcribed from the documentation text of each class; readings R12 (bool/int) and R13 (re-construction demanded for graders only).',
             ref='DESIGN.md section 4, C20'),
 'C11': dict(technique='runtime monitor: reference state machine for expect inference + fresh-instance differential over exhaustive event sequences; read-only fingerprints of author config objects, evaluator scopes (tap on MathExpression.eval), sibling instances and all process-wide library state at quiescent points',
             text='Exploration by runtime monitoring: every event sequence of length <=3 (<=4 thorough) over (expect absent/valid/other valid/unusable) x (right/other right/wrong/malformed input) for six item-grader classes x answers configured or not x debug on/off is executed on one instance and each step compared with a freshly constructed grader given the expect the state machine says is in force (with debug=True the log must describe the current call only); random histories over graders sharing subgrader instances, debug subgraders, negative-power switches with raising calls, registered class defaults and reused config dictionaries; fingerprints of configs, scopes and process-wide settings must not change.',
             note='Trusted: a fresh grader (real code) as the history-free reference; the definition of a "successfully supplied" expect given in the evidence assumptions; fingerprints are read-only.',
             ref='DESIGN.md section 4, C11'),
 'C02': dict(technique='runtime monitor: tap on the top-level instance\'s check() records the exception raised inside the guarded region and compares it with what escapes the call (class, <br/> message, generic message naming the submission); class table for constructed faults; CPU watchdog per call',
             text='Exploration by runtime monitoring: generated configurations of every grader class and nesting (debug off) are called with hostile strings (grammar-derived formulas pushed to poles/overflow/0-over-0/complex-where-real, shape-incompatible arrays, bracket damage, nesting depth 20000, 3000-term sums, unknown names, wrong arities, blank list items, stray delimiters, non-ASCII digits/operators/whitespace, control characters), with expect in {None, valid, malformed}, and with non-text / wrongly nested input objects on fresh instances (configured and expect-inferring); the evidence lists the inner exception classes actually provoked (ValueError, TypeError, RecursionError, IndexError, LinAlgError, OverflowError ...) and seen being wrapped.',
             note='Trusted: readings R3; exclusions recorded in evidence assumptions (SumGrader limit fields and list lengths kept small because the work is polynomial in a student-chosen size).',
             ref='DESIGN.md section 4, C02'),
 'C01': dict(technique='runtime monitor: structural invariant on every returned result over a generated configuration grammar of all grader classes; debug-leak canaries (distinctive literals in author answers, scripted sample values, instructor variable names, log markers) with debug=True as positive control',
             text='Exploration by runtime monitoring: tens of thousands of calls on generated configurations of String, Formula, Numerical, Matrix, SingleList (nested), Interval, Sum and List graders (ordered/unordered, subgrader lists, groupings, several answer lists; alternatives with partial credit, messages, pinned ok, expect tuples, comparers, attempt-based credit x attempts, debug on/off) with right, partly right, wrong, malformed, empty and unicode-garbage inputs; each returned value is checked for exact key sets, one entry per input, grade type/range, msg type, ok/grade agreement and absence (presence when debug=True) of debug material.',
             note='Trusted: readings R1 (SumGrader short form) and R2 (pinned ok); canary literals chosen not to occur in legitimate messages.',
             ref='DESIGN.md section 4, C01'),
 'C08': dict(technique='runtime monitor: real-code differential -- k single-alternative graders built from the same spec define what the input earns against each alternative; the full grader is called in every listing order and must return the maximum, a longest message among the best, wrong_msg exactly when applicable',
             text='Exploration by runtime monitoring: for String, Numerical, Formula (scripted samples), Matrix and SingleList graders with 1-6 alternatives (expect tuples, credits incl. 0, messages of different lengths, short/long/no wrong_msg) the full grader is built in every listing order (k<=4; 24 orders beyond) and called on inputs matching none/one/several alternatives; grade, message and order-independence are compared with the single-alternative graders; the same law is checked entrywise inside ordered and unordered ListGraders.',
             note='Trusted: the single-alternative graders (real code) as reference; R5 for ties.',
             ref='DESIGN.md section 4, C08'),
 'C05': dict(technique='runtime monitor: id-carrying table-driven ItemGrader (every returned entry names the answer/input pair that produced it) + exhaustive-search assignment oracle over the credit matrix; tap on Munkres.compute validating every solve made during real grading against the exact subset-DP optimum',
             text='Exploration by runtime monitoring: ListGraders over arbitrary credit matrices (n <= 5 quick / 6 thorough, answers with alternatives, 1-3 alternative answer lists, ordered with single subgrader or subgrader lists, unordered, partial_credit on/off) are called on permutations of the inputs; every result is checked for entry position (entry i grades input i), ordered pairing, one-to-one-ness, a single answer list, optimal total over all n! assignments and over lists, the partial_credit=False rule and ok values; grouped nested ListGraders with interleaved groupings are checked for position, group-consistent assignment and optimality.',
             note='Trusted: brute-force / subset-DP assignment oracle; unique answer and input tokens so that messages identify pairs.',
             ref='DESIGN.md section 4, C05'),
 'C07': dict(technique='runtime monitor: closed credit formula with exhaustive-search matching as reference model; arbitrary item-credit matrices realised through a harness-defined table-driven ItemGrader; permutation sweep for unordered graders',
             text='Exploration by runtime monitoring: thousands of generated SingleListGrader configurations (1-5 expected items with item alternatives, 1-3 alternative lists / expect tuples, answer credit and message, ordered/unordered, partial_credit, length_error, missing_error, single/multi-character delimiters) are called on exact, permuted, short, long, corrupted, blank-containing and random submissions; grade, ok, message and MissingInput errors are compared with the documented formula; all permutations of <=5 submitted items must grade equally for unordered graders; string-form answers, inferred expect and one nesting level are covered.',
             note='Trusted: oracle/listmodel.py (brute-force matching); R5 for message ties; grades compared at 1e-9.',
             ref='DESIGN.md section 4, C07'),
 'C09': dict(technique='runtime monitor: twin differential -- each cheating formula (correct answer + neutral term using a restricted construct) is graded by the restricted grader and by its unrestricted twin; the twin must credit it, the restricted grader must raise the required student-facing error class',
             text='Exploration by runtime monitoring: blacklist / whitelist / whitelist=[None] / required_functions / forbidden_strings / instructor_vars (variable, constant, dependent) / numbered variables / metric suffixes off / undeclared, primed and case-variant names / sibling variables / SumGrader limits and summand, each with nine neutral-term constructions (incl. exponents, function arguments, array entries), against full- and partial-credit alternatives in Formula, Numerical, Matrix and Sum graders; controls check that honest answers and the author\'s own use of restricted constructs still earn credit.',
             note='Trusted: the unrestricted twin grader (real code) as evidence that the cheat would otherwise earn credit; R6 (only U+0020 ignored in forbidden strings).',
             ref='DESIGN.md section 4, C09'),
 'C19': dict(technique='runtime monitor: Python reference summation (inclusive range in either order, parity filter, cutoff) with closed-form summands; the author side of the grader is a one-term sum carrying the reference value, so each verdict decides library-sum == reference-sum; transformation and error-class tables',
             text='Exploration by runtime monitoring: every integer limit pair in [-12,12] in both orders x even_odd {0,1,2} x several summands (polynomial, alternating, geometric, complex, vector-valued, variable-dependent), index shifts / reversals / renamings (members) and limit +-1 / summand / parity perturbations (non-members), all 15 subsets of input_positions, infinite limits with configured cutoffs, percentage tolerance near the boundary on both sides, and the error classes for non-integer/complex limits, clashing or invalid summation variables, blank fields, instructor variables and author failures.',
             note='Trusted: reference summation in Python floats; misses used as non-members are >= 1e-6 (absolute tolerance 1e-9); IntegralGrader not exercised (scipy absent).',
             ref='DESIGN.md section 4, C19'),
 'C16': dict(technique='runtime monitor: membership-by-construction oracle (members generated by the defining transformation, non-members at >=100x tolerance from the class) against verdict/grade of Formula/Matrix graders configured with each comparer on scripted samples; mismatch-policy table for wrong shapes',
             text='Exploration by runtime monitoring: for congruence, between, eigenvector, vector_span, vector_phase, MatrixEntryComparer and LinearComparer, thousands of generated targets with members and controlled non-members (incl. edge classes: targets congruent to 0, real values carried as complex, eigenvalue 0, linearly dependent spanning vectors, left eigenvectors of non-symmetric matrices, credits where a weaker relation earns more) are graded through the real graders and the verdict/credit compared; wrong-shaped inputs are checked against the answer_shape_mismatch / suppress_matrix_messages policy.',
             note='Trusted: construction of members/non-members with numpy; R14: eigenvalue-0 cases use absolute tolerances (a percentage of the zero vector M*v is not meaningful).',
             ref='DESIGN.md section 4, C16'),
 'C04': dict(technique='runtime monitor: per-sample tolerance arithmetic on known samples (harness-defined Scripted sampling set, closed-form formula families) vs grader verdict/credit; tap on the within_tolerance binding re-deciding every comparison incl. argument order',
             text='Exploration by runtime monitoring: Formula/Numerical/Matrix graders with scripted samples are called on answer+delta, answer*(1+eps), sign/branch variants failing on a chosen number of samples, bit-exact and rounding-changing rewrites, exact integer boundary cases, Frobenius-vs-max-abs and relative-to-which-operand discriminating cases and infinities, over the tolerance x samples x failable_evals grid; the verdict and credit are compared with the oracle count of failing samples, and every (expected, student, tolerance) comparison the library made is re-decided.',
             note='Trusted: closed-form values in Python floats; a 1e-9 relative guard band around the tolerance boundary is excluded except for exactly representable boundary cases.',
             ref='DESIGN.md section 4, C04'),
 'C13': dict(technique='runtime monitor: completeness/consistency predicate over every sample dict from gen_symbols_samples (direct calls on generated DAGs in all declaration orders) and from a tap on the binding the graders use; closed-form references for dependent formulas; recording user functions',
             text='Exploration by runtime monitoring: dependency DAGs of up to 8 variables in every declaration order (<=5 variables exhaustively), cyclic/dangling/failing-formula variants (must be ConfigError within the CPU budget), grader calls with numbered variables (negative and multi-digit indices, colliding plain names), dependent chains declared in random order and sibling formulas; every sample dict seen is checked for missing variables/constants, sampler membership and dependent-value consistency on the same sample.',
             note='Trusted: template formulas with closed-form Python references; the tap is a pass-through wrapper of math_helpers.gen_symbols_samples.',
             ref='DESIGN.md section 4, C13'),
 'C12': dict(technique='runtime monitor: membership predicates from the documentation applied to every gen_sample() value over the sampler option grids; drawn random functions evaluated (and re-evaluated) at random points',
             text='Exploration by runtime monitoring: every draw of every sampler configuration on the grids (intervals incl. reversed/degenerate, rectangles, sectors mod 2pi, discrete sets, all 288 SquareMatrices option combinations of which the constructor accepts 214, vectors/matrices/tensors x norm ranges x triangular, identity multiples over all scalar samplers, 648 RandomFunction configurations) is checked for type, shape, realness, range, norm, symmetry, trace, determinant; integer endpoints must be attained; random functions must be fixed, of declared arity/shape and within center +/- amplitude.',
             note='Trusted: numpy linear algebra for the predicates; tolerances of R7; Orthogonal/UnitaryMatrices draws not exercised (scipy absent).',
             ref='DESIGN.md section 4, C12'),
 'C15': dict(technique='runtime monitor: math/cmath textbook definitions for forward functions, round-trip identities + principal-range membership for inverse functions, numpy on plain arrays for matrix functions; warning recorder, nan scan and error-class check on every evaluator call',
             text='Exploration by runtime monitoring: every documented default function of the Formula/Numerical and Matrix tables (factorial excluded) is called through the real evaluator on real grids, random real/complex points, +-1e-9 neighbourhoods of branch cuts, poles, extreme magnitudes, wrong arities and wrong argument shapes (vectors, matrices, tensors); values are compared with definitions, inverse functions by f(f_inv(z)) = z and real-range membership, errors must be student-facing, and no call may emit a numeric warning or nan.',
             note='Trusted: math/cmath as definitions; tolerances rel 1e-9 (round trips 1e-7); R9 for real arguments outside real domains; scipy-dependent factorial not exercised.',
             ref='DESIGN.md section 4, C15'),
 'C14': dict(technique='runtime monitor: documented shape-rule table + numpy on plain arrays applied to every MathArray operator call (binary, reflected, in-place), every formula-string evaluation with arrays, and MatrixGrader(negative_powers=False) verdicts; operand fingerprints before/after',
             text='Exploration by runtime monitoring: all ordered operand pairs of the shape lattice (scalars incl. zero, vectors 2-4, matrices up to 4x4, 3-axis tensors; real and complex) x five operators x binary/in-place/reflected forms, exponent classes x negative-power switch, the same pairs through formula strings, triple vector products, and grader calls with negative powers disabled; every outcome is compared with the rule table (value vs error, value equality, student-facing error class, operands unchanged).',
             note='Trusted: rule table transcribed from the statement (R8 for one-element results); numpy on plain ndarrays as value reference; ZeroDivision/Overflow at raw operator level are accepted as errors because the evaluator recasts them.',
             ref='DESIGN.md section 4, C14'),
 'C10': dict(technique='runtime monitor: name sets known by construction vs parse()/evaluator() metadata; exhaustive event-sequence differential of the shared parser against freshly constructed parsers; invariant hook on MathParser.parse (scratch sets empty, no aliasing, cached sets immutable)',
             text='Exploration by runtime monitoring: (A) reported variable/function/suffix sets for thousands of generated derivations and 40 hand-listed confusables; (B) all event sequences of length <=3 (<=4 thorough) over 12 strings (valid, whitespace variants, unbalanced, unparsable after names were seen, undefined names, RecursionError-deep) x {parse, eval in two scopes} on the process-wide parser, each step compared with a fresh MathParser, plus random sequences up to length 64; (C) an invariant checked at a hook after every parse return/raise.',
             note='Trusted: generator bookkeeping of used names; a fresh MathParser as the history-free reference; the hook is a pass-through wrapper on the class attribute.',
             ref='DESIGN.md section 4, C10'),
 'C03': dict(technique='runtime monitor: evaluator() outcomes vs two independent reference evaluations of the generating derivation (AST evaluator + hand-written recursive-descent parser over tokens); rendering differential; invalid-by-construction strings vs the documented error family',
             text='Exploration by runtime monitoring: every operator sequence up to length 3 (4 in thorough) with every unary-minus placement, on real and complex bindings, plus thousands of random derivations (all literal forms, names, functions, arrays) each in 6 renderings, are evaluated by the real evaluator and judged against reference values; the run measures how many cases discriminate each wrong grammar hypothesis (level swap, associativity flips).',
             note='Trusted: the two reference evaluators (cross-checked against each other on every derivation; disagreement = inconclusive); 1e-9 relative tolerance scaled by the largest intermediate; cases where the reference is undefined (overflow, division by zero, complex value exactly on a branch cut) only require a student-facing error.',
             ref='DESIGN.md section 4, C03'),
 'C18': dict(technique='runtime monitor: reference cleaning function + re.fullmatch oracle applied to every StringGrader call over 16 flag combinations x generated strings/edits, accept_any minimum grids, validation-pattern grids',
             text='Exploration by runtime monitoring: each StringGrader outcome (grade, message, error class) over tens of thousands of generated (flags, expected, submission) triples is compared with an independent 20-line reference of the documented cleaning and with re.fullmatch; refusals are checked to take the form explain_minimums / explain_validation prescribe.',
             note='Trusted: the reference cleaning function (written from the statement); R11 exclusions (non-U+0020 whitespace at the ends; runs of >=3 CR/LF without clean_spaces/strip_all).',
             ref='DESIGN.md section 4, C18'),
 'C17': dict(technique='runtime monitor: closed-form schedule oracle over the exhaustive parameter grid x attempts -5..200; twin-grader differential (same grader without attempt credit) with recording author schedules',
             text='Exploration by runtime monitoring: every schedule value on the documented parameter grid (attempts -5..200) is checked online for range, monotonicity, first-attempt value and closed form; every grader call with the feature on is compared entry by entry with a twin grader without it (scaling, ok recomputation, zero grades, note presence/number/percentage, missing attempt).',
             note='Trusted: closed forms transcribed from docs/graders.md; 4-digit rounding of the credit as documented; reading R10 (attempts below 1 behave as attempt 1, also for direct schedule calls).',
             ref='DESIGN.md section 4, C17'),
 'C06': dict(technique='runtime monitor: every Munkres.compute() checked online against an exact subset-DP optimum, deep-copy input comparison, CPU watchdog, reuse-vs-fresh differential',
             text='Exploration by runtime monitoring: every solve the workload produces (exhaustive r,c<=3 over {0,1,2}, 4x4 over {0,1}, tens of thousands of random integer/float/tie-heavy/grade-like/near-tie matrices up to 10x10, reuse sequences) is judged by an independent exact oracle. Held = held on the executions observed.',
             note='Trusted: the subset-DP oracle (cross-checked against brute force each run); float totals compared at 1e-9*scale; termination restated as a CPU budget (5 s, retried at 100 s).',
             ref='DESIGN.md section 4, C06'),
}

# what later rounds (seeded-change waves 2-5, coverage analysis) added to each workload
ADDED = {
    'C01': ' Later additions: wrong input counts, attempts <= 0, contradicting explicit ok beside partial credit, one subgrader object shared by debug and plain graders, registered class defaults with debug graders.',
    'C02': ' Later additions: fault table with brace brackets, LinearComparer / transform shape faults, ragged and tensor literals, complex-typed real limits, mis-configured comparers, sibling-referencing lists.',
    'C03': ' Later additions: em-dash in exponent signs, tab/newline juxtapositions, names with negative superscripts, number literals with every suffix judged relative to their own magnitude.',
    'C04': ' Later additions: tiny percentage tolerances, -inf/+inf sign table, graders whose only sampled quantity is a numbered variable, debug=True twins, bystander options that must not change the verdict.',
    'C05': ' Later additions: find_optimal_order driven directly on 4-7 box matrices, sparse grouped submissions, grouped layouts with several answer lists and outer partial_credit=False, SingleListGrader subgraders, debug graders.',
    'C06': ' Later additions: wide/tall padded problems with 4-8 real rows.',
    'C07': ' Later additions: nested inner refusals (blank / wrong count) and answer-level messages judged by the all-awarded rule, expect tuples, debug graders.',
    'C08': ' Later additions: credit-scaling law against the same alternative worth 1, message-origin law, author comparers returning reused dictionaries (incl. zero-credit alternatives), shape-tolerant matrix alternatives, IntervalGrader alternatives at three levels against the documented credit rule.',
    'C09': ' Later additions: user function overriding a blacklisted default, siblings through DependentSamplers, aborted-parse histories, three/four-box sibling lists, bystander restrictions beside the one under test.',
    'C10': ' Later additions: tab-inside-token pairs, scope-dependent array dimensions, blank variants of malformed strings, SumGrader/FormulaGrader calls interleaved with the histories.',
    'C11': ' Later additions: multi-input graders with debug, own-option fingerprints, per-call variable histories on shared subgraders, one comparer object shared by graders, deleted default constants, nested list inference.',
    'C12': ' Later additions: earlier random functions re-evaluated after later draws, one-point intervals and degenerate rectangle sides exact.',
    'C13': ' Later additions: suffixes in dependent formulas, siblings needed only by a numbered variable, repeated submissions on one list grader, dangling names with braces.',
    'C14': ' Later additions: mixed vector/matrix product chains, one-element array exponents, near-integer exponents, dependent samplers under negative_powers=False, identity_dim, tiny non-zero scalars.',
    'C15': ' Later additions: arctan2 with complex coordinates refused.',
    'C16': ' Later additions: structural zeros, tiny span coefficients, comparer histories (zero first), constant submissions, shape-collapsing transforms, entries agreeing in some samples only.',
    'C17': ' Later additions: debug graders, graders without configured answers (expect=None), full credit labelled ok=False.',
    'C18': ' Later additions: both accept switches, upper-case patterns under case folding, non-default cleaning flags with patterns, debug refusals.',
    'C19': ' Later additions: cutoffs smaller than finite limits, integer checks next to infinite limits, near-integer limits, metric suffixes in limits, input_positions in arbitrary key order.',
    'C20': ' Later additions: contradicting explicit ok, construction histories (deleted default constants), NaN for range-restricted numbers, collisions under suppress_warnings, more cross rules (49).',
}


def build():
    props = [json.loads(l) for l in open(os.path.join(HERE, 'properties.jsonl'))]
    checks, na = [], []
    for p in props:
        pid = p['id']
        if pid in CHECKS:
            c = CHECKS[pid]
            checks.append({
                'property_id': pid,
                'quick_cmd': '/venv/bin/python -m vf.run %s --tier quick' % pid,
                'thorough_cmd': '/venv/bin/python -m vf.run %s --tier thorough' % pid,
                'evidence_file': '/verif/evidence/%s.json' % pid,
                'replay_cmd_template': '/venv/bin/python -m vf.run %s --replay {path}' % pid,
                'engine': 'vf',
                'level_claimed': {'category': 'exploration', 'text': c['text'] + ADDED.get(pid, ''), 'design_ref': c['ref'] + '; section 9.5'},
                'level_note': c['note'],
                'technique': c['technique'],
            })
        else:
            na.append({'property_id': pid, 'reason': 'check not built yet in this round (planned: runtime monitor per DESIGN.md section 4); not claimed until its monitor exists and is silent on the unchanged tree'})
    return {
        'version': 1,
        'setup_cmd': '/venv/bin/python -c "import numpy, pyparsing; print(\'deps ok\')"',
        'hooks': {'guard': 'MITX_GRADING_VERIF', 'enable': 'none needed: all taps are attached from the harness by wrapping attributes of the repo\'s classes at run time; /repo is imported from its working tree (nothing to build)',
                  'baseline_off_cmd': 'cd /repo && /venv/bin/python -m pytest -ra -q -p no:cacheprovider --timeout=900 --continue-on-collection-errors',
                  'source_commits': [], 'add_only': True},
        'engines': [{'name': 'vf', 'path': '/verif/vf', 'serves_properties': sorted(CHECKS), 'kind_free_text': 'Python runtime-monitoring harness: sharded workload generators, taps on the real functions, reference-model oracles, mechanism-keyed verdicts'}],
        'checks': checks,
        'notes': 'Run from cwd /verif. VERIF_SEED selects the workload seed. Exit 0 held / 1 violation / 2 inconclusive.',
        'not_applicable': na,
    }

if __name__ == '__main__':
    m = build()
    json.dump(m, open(os.path.join(HERE, 'MANIFEST.json'), 'w'), indent=1)
    print('MANIFEST.json written: %d checks, %d not_applicable' % (len(m['checks']), len(m['not_applicable'])))
