"""
Exact assignment oracle, independent of the Hungarian method.

min_cost(M): minimum total of a matching of size min(r, c) using each row/column at most
once.  Subset DP over the smaller side; brute force kept as a cross-check of the DP.
"""
import itertools


def min_cost(M):
    r = len(M)
    c = len(M[0]) if r else 0
    if r == 0 or c == 0:
        return 0
    if r > c:  # transpose so that rows <= columns
        M = [[M[i][j] for i in range(r)] for j in range(c)]
        r, c = c, r
    # rows are all matched (r <= c); dp over column subsets, processing rows in order
    INF = float('inf')
    dp = {0: 0}
    for i in range(r):
        nxt = {}
        row = M[i]
        for mask, cost in dp.items():
            for j in range(c):
                bit = 1 << j
                if mask & bit:
                    continue
                v = cost + row[j]
                m2 = mask | bit
                if v < nxt.get(m2, INF):
                    nxt[m2] = v
        dp = nxt
    return min(dp.values())


def max_profit(P):
    """Maximum total of a matching of size min(r, c)."""
    neg = [[-x for x in row] for row in P]
    return -min_cost(neg)


def brute_min_cost(M):
    r = len(M)
    c = len(M[0])
    best = None
    if r <= c:
        for cols in itertools.permutations(range(c), r):
            t = sum(M[i][cols[i]] for i in range(r))
            best = t if best is None or t < best else best
    else:
        for rows in itertools.permutations(range(r), c):
            t = sum(M[rows[j]][j] for j in range(c))
            best = t if best is None or t < best else best
    return best


def check_matching(M, pairs):
    """Structural validity of a solver result; returns None or a problem string."""
    r, c = len(M), len(M[0])
    if len(pairs) != min(r, c):
        return 'returned %d pairs for a %dx%d matrix' % (len(pairs), r, c)
    rows = [p[0] for p in pairs]
    cols = [p[1] for p in pairs]
    if len(set(rows)) != len(rows):
        return 'a row is used twice'
    if len(set(cols)) != len(cols):
        return 'a column is used twice'
    if any(not (0 <= i < r) for i in rows) or any(not (0 <= j < c) for j in cols):
        return 'index out of range'
    return None
