"""
Reference model of SingleListGrader / ListGrader credit rules, written from the documentation.
Assignments are found by exhaustive search (n <= 7); nothing here uses the Hungarian method.
"""
import itertools


def best_assignments(C, n_expect, n_sub):
    """
    C[i][j] = credit of submitted item j against expected item i.
    Returns (best_total, list of assignments) where an assignment is a tuple a of length n_sub with
    a[j] = index of the expected item matched to submitted item j, or None (unmatched).
    Every expected / submitted item is used at most once; min(n_expect, n_sub) pairs are formed.
    """
    best, arg = None, []
    if n_sub <= n_expect:
        for rows in itertools.permutations(range(n_expect), n_sub):
            t = sum(C[rows[j]][j] for j in range(n_sub))
            if best is None or t > best + 1e-12:
                best, arg = t, [tuple(rows)]
            elif abs(t - best) <= 1e-12:
                arg.append(tuple(rows))
    else:
        for cols in itertools.permutations(range(n_sub), n_expect):
            t = sum(C[i][cols[i]] for i in range(n_expect))
            a = [None] * n_sub
            for i, j in enumerate(cols):
                a[j] = i
            if best is None or t > best + 1e-12:
                best, arg = t, [tuple(a)]
            elif abs(t - best) <= 1e-12:
                arg.append(tuple(a))
    return best, arg


def single_list_credit(C, n_expect, n_sub, ordered, partial_credit):
    """
    Documented formula: max(0, (best total - surplus) / n_expect); missing items count zero.
    Returns (grade_fraction, set of possible 'every submitted and expected item earned credit').
    """
    if ordered:
        m = min(n_expect, n_sub)
        total = sum(C[i][i] for i in range(m))
        assigns = [tuple(range(m)) + (None,) * (n_sub - m)]
    else:
        total, assigns = best_assignments(C, n_expect, n_sub)
    surplus = max(0, n_sub - n_expect)
    frac = max(0.0, (total - surplus) / float(n_expect))
    if not partial_credit and frac < 1:
        frac = 0.0
    awarded = set()
    for a in assigns:
        if n_sub != n_expect:
            awarded.add(False)
            continue
        awarded.add(all(a[j] is not None and C[a[j]][j] > 0 for j in range(n_sub)))
    return frac, awarded
