"""
state.py -- read-only fingerprints of configuration objects and process-wide library state.
"""
import numpy as np

from vf.core import digest


def fp(obj, depth=0, seen=None):
    """Structural fingerprint: values for data, identity for callables, recursion into .config."""
    if seen is None:
        seen = set()
    if depth > 12:
        return '...'
    if obj is None or isinstance(obj, (bool, int, float, complex, str, bytes)):
        return repr(obj)
    if isinstance(obj, np.ndarray):
        return ('nd', obj.shape, str(obj.dtype), obj.tobytes().hex()[:4000])
    if isinstance(obj, np.generic):
        return repr(obj.item())
    if id(obj) in seen:
        return ('cycle', type(obj).__name__)
    if isinstance(obj, dict):
        seen = seen | {id(obj)}
        return ('dict', tuple(sorted(((fp(k, depth + 1, seen), fp(v, depth + 1, seen)) for k, v in obj.items()), key=repr)))
    if isinstance(obj, (list, tuple)):
        seen = seen | {id(obj)}
        return (type(obj).__name__, tuple(fp(v, depth + 1, seen) for v in obj))
    if isinstance(obj, (set, frozenset)):
        return ('set', tuple(sorted((fp(v, depth + 1, seen) for v in obj), key=repr)))
    cfg = getattr(obj, 'config', None)
    if cfg is not None and hasattr(obj, 'schema_config'):
        seen = seen | {id(obj)}
        return ('obj', type(obj).__name__, id(obj), fp(cfg, depth + 1, seen))
    return ('id', type(obj).__name__, id(obj))


def fingerprint(obj):
    return digest(repr(fp(obj)))


def all_subclasses(cls):
    out = []
    for sub in cls.__subclasses__():
        out.append(sub)
        out.extend(all_subclasses(sub))
    return out


def process_state():
    """Dictionary name -> fingerprint of every process-wide setting the library owns or sets."""
    import mitxgraders as M
    from mitxgraders.baseclasses import ObjectWithSchema
    from mitxgraders.helpers.calc import mathfuncs, expressions
    from mitxgraders.helpers.calc.math_array import MathArray
    from mitxgraders.helpers.math_helpers import MathMixin
    from mitxgraders.formulagrader.integralgrader import SummationGraderBase
    st = {
        'np.geterr': repr(sorted(np.geterr().items())),
        'np.geterrcall': repr(np.geterrcall() is expressions.handle_np_floating_errors),
        'MathArray._negative_powers': repr(MathArray._negative_powers),
        'MathArray._default_negative_powers': repr(MathArray._default_negative_powers),
        'DEFAULT_VARIABLES': fingerprint(mathfuncs.DEFAULT_VARIABLES),
        'DEFAULT_FUNCTIONS': fingerprint(mathfuncs.DEFAULT_FUNCTIONS),
        'DEFAULT_SUFFIXES': fingerprint(mathfuncs.DEFAULT_SUFFIXES),
        'METRIC_SUFFIXES': fingerprint(mathfuncs.METRIC_SUFFIXES),
        'ARRAY_ONLY_FUNCTIONS': fingerprint(mathfuncs.ARRAY_ONLY_FUNCTIONS),
        'PARSER.scratch': repr((sorted(expressions.PARSER.variables_used), sorted(expressions.PARSER.functions_used),
                                sorted(expressions.PARSER.suffixes_used))),
    }
    for cls in (MathMixin, M.FormulaGrader, M.NumericalGrader, M.MatrixGrader, SummationGraderBase, M.SumGrader):
        for attr in ('default_variables', 'default_functions', 'default_suffixes'):
            st['%s.%s' % (cls.__name__, attr)] = fingerprint(getattr(cls, attr))
    for cls in (M.FormulaGrader, M.NumericalGrader, M.MatrixGrader):
        st['%s.default_comparer' % cls.__name__] = repr(id(cls.__dict__.get('default_comparer', None))) + repr(type(cls.default_comparer).__name__)
    for cls in [ObjectWithSchema] + all_subclasses(ObjectWithSchema):
        if cls.__module__.startswith('mitxgraders'):
            st['%s.default_values' % cls.__name__] = fingerprint(cls.__dict__.get('default_values', 'MISSING'))
    st['log_created(class)'] = repr(M.StringGrader.log_created) + repr(M.FormulaGrader.inferring_answers)
    return st


def diff_state(a, b):
    return sorted(k for k in set(a) | set(b) if a.get(k) != b.get(k))
