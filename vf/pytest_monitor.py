"""
pytest_monitor.py -- pytest plugin: the repository's own test suite as an extra monitored workload.

    cd $REPO && PYTHONPATH=/verif VF_MONITOR_OUT=<file> python -m pytest -q -p no:cacheprovider -p vf.pytest_monitor

Only contracts that are sound under *arbitrary* author code are installed (tests deliberately use
debug=True, odd comparers, registered defaults...):
  * every Munkres.compute(): complete matching, exact optimum (subset DP), caller's matrix untouched
  * every MathParser.parse(): scratch sets empty afterwards, cached name sets never change, no aliasing
  * every RealInterval / IntegerRange / ComplexRectangle / DiscreteSet draw lies in its declared set
  * after every test: the negative-power switch is back to its default and numpy's error state is the library's
The event counts and any contract failures are written to VF_MONITOR_OUT as JSON.
"""
import copy
import json
import os

import numpy as np

STATE = {'munkres': 0, 'parse': 0, 'draws': 0, 'tests': 0, 'failures': []}


def fail(kind, msg, nodeid=None):
    if len(STATE['failures']) < 50:
        STATE['failures'].append({'kind': kind, 'msg': msg[:500], 'test': nodeid or STATE.get('current')})


def install():
    from vf.oracle import assign
    from mitxgraders.helpers import munkres
    from mitxgraders.helpers.calc import expressions as E
    from mitxgraders import sampling as S

    orig_compute = munkres.Munkres.compute

    def compute(self, cost_matrix):
        before = copy.deepcopy(cost_matrix)
        out = orig_compute(self, cost_matrix)
        STATE['munkres'] += 1
        try:
            prob = assign.check_matching(before, out)
            if prob is None and max(len(before), len(before[0])) <= 12:
                got = sum(before[i][j] for i, j in out)
                opt = assign.min_cost(before)
                if abs(got - opt) > 1e-9 * max(1.0, sum(abs(x) for r in before for x in r)):
                    prob = 'total %r, optimum %r for %r' % (got, opt, before)
            if prob is None and before != cost_matrix:
                prob = 'caller matrix modified'
            if prob:
                fail('munkres', prob)
        except Exception as exc:  # noqa  (non-numeric matrices in the library's own doctests)
            STATE.setdefault('munkres_unchecked', 0)
            STATE['munkres_unchecked'] += 1
        return out
    munkres.Munkres.compute = compute

    orig_parse = E.MathParser.parse
    snaps = {}

    def parse(self, expression):
        try:
            out = orig_parse(self, expression)
        finally:
            STATE['parse'] += 1
            if self.variables_used or self.functions_used or self.suffixes_used:
                fail('parse', 'scratch sets not empty after parse(%r)' % (expression[:80],))
            ent = self.cache.get(expression.replace(' ', ''))
            if ent is not None and hasattr(ent, 'variables_used'):
                snap = (frozenset(ent.variables_used), frozenset(ent.functions_used), frozenset(ent.suffixes_used))
                key = (id(self), id(ent))
                if key in snaps and snaps[key][1] != snap and snaps[key][0] is ent:
                    fail('parse', 'cached name sets of %r changed' % (expression[:80],))
                snaps[key] = (ent, snap)
                if ent.variables_used is self.variables_used:
                    fail('parse', 'cached set aliases the scratch set')
        return out
    E.MathParser.parse = parse

    def wrap_draw(cls, member):
        orig = cls.gen_sample

        def gen_sample(self):
            v = orig(self)
            STATE['draws'] += 1
            try:
                if not member(self, v):
                    fail('draw', '%s(%r) drew %r' % (cls.__name__, self.config, v))
            except Exception as exc:  # noqa
                fail('draw', '%s membership check failed: %r' % (cls.__name__, exc))
            return v
        cls.gen_sample = gen_sample
    wrap_draw(S.RealInterval, lambda s, v: s.config['start'] - 1e-12 <= v <= s.config['stop'] + 1e-12)
    wrap_draw(S.IntegerRange, lambda s, v: s.config['start'] <= v <= s.config['stop'] and int(v) == v)
    wrap_draw(S.ComplexRectangle, lambda s, v: min(s.config['re'].values()) - 1e-12 <= v.real <= max(s.config['re'].values()) + 1e-12 and
              min(s.config['im'].values()) - 1e-12 <= v.imag <= max(s.config['im'].values()) + 1e-12)
    wrap_draw(S.DiscreteSet, lambda s, v: any(v is m or (not isinstance(m, np.ndarray) and not isinstance(v, np.ndarray) and v == m) for m in s.config))


def pytest_configure(config):
    install()
    from mitxgraders.helpers.calc import expressions as E
    STATE['np_err'] = repr(sorted(np.geterr().items()))
    STATE['errcall_ok'] = np.geterrcall() is E.handle_np_floating_errors


def pytest_runtest_setup(item):
    STATE['current'] = item.nodeid


def pytest_runtest_teardown(item, nextitem):
    from mitxgraders.helpers.calc import MathArray
    STATE['tests'] += 1
    if MathArray._negative_powers is not True:
        fail('state', 'MathArray._negative_powers is %r after the test' % MathArray._negative_powers, item.nodeid)
        MathArray._negative_powers = True
    if repr(sorted(np.geterr().items())) != STATE['np_err']:
        fail('state', 'numpy error state changed to %r' % (np.geterr(),), item.nodeid)
        np.seterr(divide='call', over='call', invalid='call')


def pytest_sessionfinish(session, exitstatus):
    out = os.environ.get('VF_MONITOR_OUT')
    if out:
        data = {k: v for k, v in STATE.items() if k not in ('current',)}
        with open(out, 'w') as f:
            json.dump(data, f)
