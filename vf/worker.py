"""
worker.py -- runs one shard of one property in its own process and writes a JSON result.

usage: python -m vf.worker <PROP> <tier> <seed> <shard> <nshards> <outfile>
"""
import faulthandler
import importlib
import json
import os
import sys
import time
import traceback
import warnings


def run_shard(prop, tier, seed, shard, nshards, partial_path=None):
    from vf import core
    core.setup_repo_path()
    mod = importlib.import_module('vf.props.%s' % prop.lower())
    ctx = core.Ctx(prop, tier, seed, shard, nshards)
    ctx.partial_path = partial_path
    # the library draws from the global `random` / `numpy.random` generators: make every shard
    # reproducible from (property, seed, shard); workloads re-seed per case where they replay
    ctx.seed_case('shard-start', tier, shard, nshards)
    t0 = time.time()
    try:
        mod.run(ctx)
    except core.AbortShard:
        ctx.inconclusive_because('shard %d stopped after %d confirmed non-terminating calls' % (shard, ctx.confirmed_hangs))
    res = ctx.result()
    res['wall_s'] = time.time() - t0
    return res


def main(argv):
    prop, tier, seed, shard, nshards, out = argv
    faulthandler.enable()
    # Library warnings must be *observable* (C15); never let a filter hide them.
    warnings.simplefilter('default')
    cov = None
    if os.environ.get('VF_COVERAGE_DIR'):
        # analysis aid only (tools/coverage_report.sh): which library lines do the workloads reach?
        import coverage
        from vf import core
        cov = coverage.Coverage(data_file=os.path.join(os.environ['VF_COVERAGE_DIR'], 'cov.%s.%s' % (prop, shard)),
                                include=[os.path.join(core.REPO, 'mitxgraders', '*')], branch=True)
        cov.start()
    try:
        res = run_shard(prop, tier, int(seed), int(shard), int(nshards), partial_path=out + '.partial')
        res['status'] = 'done'
    except BaseException as exc:  # harness failure -> inconclusive, never a violation
        res = {'status': 'crashed', 'shard': int(shard),
               'error': '%s: %s' % (type(exc).__name__, exc),
               'traceback': traceback.format_exc()[-4000:]}
    if cov is not None:
        cov.stop()
        cov.save()
    tmp = out + '.tmp'
    with open(tmp, 'w') as f:
        json.dump(res, f)
    os.replace(tmp, out)


if __name__ == '__main__':
    main(sys.argv[1:])
