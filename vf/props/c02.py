"""
C02 -- grading failures surface only as library errors with student-safe messages.

Monitor: a tap on the top-level instance's `check` records the exception raised *inside* the
guarded region; it is compared with what escapes the call: MITxError -> same class, message with
line breaks as <br/>; anything else -> exactly the generic StudentFacingError naming every
submitted string.  Nothing outside the library's family may escape; non-text / wrongly nested
input objects must be refused with ConfigError; every call runs under a CPU watchdog;
inputs constructed to trigger a specific anticipated problem must raise the documented class.
"""
import itertools

from vf import lib
from vf import gen_graders as GG
from vf import gen_expr as G

RULE = ('all grader classes and nestings (generated configurations, debug off) x hostile strings: grammar-derived '
        'formulas pushed outside function domains (poles, overflow, 0/0, complex where real is required), '
        'shape-incompatible arrays, bracket insertion/deletion/swap, nesting depth up to 20000, 3000-term sums, '
        'unknown names, arity +-1, blank list items, stray delimiters, non-ASCII digits/operators/whitespace, '
        'control characters; expect in {None, valid text, malformed text}; non-string and wrongly nested input '
        'objects. Non-trivial = a call that raised (inside or outside) or was given a non-text object; '
        'distinct by (config, input).')
ASSUMPTIONS = ['excluded: work legitimately polynomial in a student-chosen size -- SumGrader limit fields only receive small/invalid values (range length <= 1000) and delimiter-separated lists have <= 40 items (SingleListGrader matching is cubic in the item count)',
               'R3: the generic message names the submission verbatim (may contain the student\'s own line breaks); '
               'the <br/> rule is checked on anticipated (MITxError) messages',
               'termination restated as a CPU budget of 6 s per call (retried alone at 120 s)']

FAULT_TABLE = [
    # (grader kind, input, acceptable exception class names)
    ('F', '1/0', ['CalcZeroDivisionError']), ('F', '0^-1', ['CalcZeroDivisionError']), ('F', '1/(x-x)', ['CalcZeroDivisionError']),
    ('F', '10^400', ['CalcOverflowError']), ('F', 'exp(1000)', ['CalcOverflowError']), ('F', '10^10^10', ['CalcOverflowError']),
    ('F', '(1+2', ['UnbalancedBrackets']), ('F', '1+2)', ['UnbalancedBrackets']), ('F', '(1+2]', ['UnbalancedBrackets']),
    ('F', 'zork+1', ['UndefinedVariable']), ('F', 'zork(1)', ['UndefinedFunction']), ('F', 'X', ['UndefinedVariable']),
    ('F', 'sin(1,2)', ['ArgumentError']), ('F', 'arctan2(1)', ['ArgumentError']), ('F', 'min(1)', ['ArgumentError']),
    ('M', 'sin([1,2])', ['ArgumentShapeError']), ('M', 'cross([1,2],[1,2,3])', ['ArgumentShapeError']),
    ('M', 'det([1,2])', ['ArgumentShapeError']), ('M', '[1,2]+[1,2,3]', ['MathArrayShapeError']),
    ('M', '[1,2]*[[1,2,3]]', ['MathArrayShapeError']), ('M', '[1,2]^2', ['MathArrayShapeError']), ('M', '[[1,2],[3,4]]^0.5', ['MathArrayError']),
    ('M', '[[1,2],[2,4]]^-1', ['MathArrayError']), ('M', '[[1,2],[3,4]]^i', ['MathArrayError']), ('M', '[[1,2],[3,4]]^(1+i)', ['MathArrayError']),
    ('M', '[[1,2],[3,4]]^[1,2]', ['MathArrayError']), ('M', '2^[[1,2],[3,4]]', ['MathArrayError']), ('M', '[[1,2,3],[4,5,6]]^2', ['MathArrayError']), ('M', '1/[1,2]', ['MathArrayShapeError']), ('M', '[1,2]+1', ['MathArrayShapeError']),
    ('M', '[[1,2],[3]]', ['UnableToParse']), ('M', '[1,2]*[3,4]*[5,6]', ['CalcError']),
    ('F', 'arccosh(0)', ['FunctionEvalError']), ('F', 'arctan2(0,0)', ['FunctionEvalError']), ('F', 'cot(0)', ['CalcZeroDivisionError']),
    ('F', 'ln(0)', ['CalcZeroDivisionError']), ('F', 'sin()', ['UnableToParse']), ('F', '1++2', ['UnableToParse']),
    ('F', '[]', ['UnableToParse']), ('F', '2x', ['UndefinedFunction', 'UndefinedVariable', 'UnableToParse']), ('F', '[1,2]', ['UnableToParse']),
    ('F', '5k', ['UndefinedFunction']), ('F', 'floor(1+i)', ['FunctionEvalError']), ('F', 'max(i,1)', ['FunctionEvalError']),
    ('SL', 'a,,b', ['MissingInput']), ('SL', ',a', ['MissingInput']), ('SL', 'a, ,b', ['MissingInput']),
    ('SLL', 'a', ['MissingInput']), ('SLL', 'a,b,c,d', ['MissingInput']),
    ('S_any', 'ab', ['InvalidInput']), ('S_pat', 'cat!', ['InvalidInput']),
    ('I', '{1,2}', ['InvalidInput']), ('I', '[1,2>', ['InvalidInput']), ('I', '[1]', ['ConfigError']), ('I', '[1,2,3]', ['MissingInput']),
    ('I', '     ', ['ConfigError']), ('I', '\t\t\t\t\t\t', ['ConfigError']), ('I', 'x    ', ['ConfigError']), ('I', '  [1  ', ['ConfigError']),
    ('I', ' \n \n \n', ['ConfigError']), ('LGG', ['a', 'b', 'c', 'd', 'e'], ['ConfigError']), ('LGG', ['a', 'b', 'c'], ['ConfigError']),
    ('LGG', ['a', 'b', 'c', 'd', 'e', 'f'], ['ConfigError']),
    # unbalanced AND deeply nested: still the bracket error, with its marked-up message
    ('F', '(' * 60 + '1' + ')' * 59, ['UnbalancedBrackets']), ('F', '(' * 200 + 'x' + ')' * 199, ['UnbalancedBrackets']),
    ('M', '[' * 80 + '1' + ']' * 79, ['UnbalancedBrackets']), ('F', '(' * 45 + '1' + ')' * 46, ['UnbalancedBrackets']),
    # a bare string where several boxes are expected, of exactly as many characters as there are boxes
    ('SUM', '123n', ['ConfigError']), ('SUM', 'abcd', ['ConfigError']), ('SUM2', '15', ['ConfigError']), ('SUM2', 'ab', ['ConfigError']),
    ('L', 'ab', ['ConfigError']),
    ('FMS', '2K', ['UndefinedFunction']), ('FMS', '2kk', ['UndefinedFunction']),
    ('LNA', ['a', 'b'], ['ConfigError']), ('SLNA', 'a, b', ['ConfigError']),       # graders without any answers, called without expect
    ('IB', '<1,2]', ['InvalidInput']), ('IB', '[1,2>', ['InvalidInput']), ('IB', '|1,2|', ['InvalidInput']), ('IB', '{1,2|', ['InvalidInput']),
    ('ML', 'v', ['InputTypeError']), ('ML', '[1,2]', ['InputTypeError']), ('ML', 'A', ['InputTypeError']), ('ML', 'A^2', ['InputTypeError']),
    ('MLV', 'x', ['InputTypeError']), ('MLV', 'A', ['InputTypeError']), ('MV', '3', ['InputTypeError']), ('MV', '[1,2,3]', ['InputTypeError']),
    ('M', '[[1],2,3]', ['UnableToParse']), ('M', '[1,2,[3]]', ['UnableToParse']), ('M', '[[[1,2],[3,4]],[[1,2],[3,4]]]', ['UnableToParse']),
    # author mistakes that only show while grading: still a library error (never a bare numpy / Python one)
    ('LIN2', 'x', ['ConfigError']), ('SPANBAD', '[1,2]', ['StudentFacingError']), ('PHASEBAD', '[1,2]', ['StudentFacingError']),
    # integer-typed quantities (constants, IntegerRange samples, the summation index) in power towers: overflow, not a hang
    ('FI', 'N^N^N', ['CalcOverflowError']), ('FI', 'N^N^N^N', ['CalcOverflowError']), ('FI', '2^N^N^N', ['CalcOverflowError']),
    ('FIR', 'n^n^n', ['CalcOverflowError']), ('FIR', 'n^(n^n)', ['CalcOverflowError']), ('FIR', 'n^n^n^n', ['CalcOverflowError']),
    ('SUM', ['7', '9', 'n^n^n', 'n'], ['CalcOverflowError']), ('SUM', ['1', '9', 'n^n^n^n', 'n'], ['CalcOverflowError']),
    # author functions failing in ways of their own: still "not in its domain"
    ('UF', 'tab(7)', ['FunctionEvalError']), ('UF', 'kk(5)', ['FunctionEvalError']), ('UF', 'att(2)', ['FunctionEvalError']),
    ('UF', 'asrt(2)', ['FunctionEvalError']), ('UF', 'stp(2)', ['FunctionEvalError']),
    ('SUM', ['1.5', '3', 'n', 'n'], ['SummationError']), ('SUM', ['i^2+2', '3', 'n', 'n'], ['SummationError']),
    ('SUM', ['1', '3+0*i', 'n', 'n'], ['SummationError']), ('SUM', ['1', '3+i', 'n', 'n'], ['SummationError']), ('SUM', ['1', '3', 'n', 'pi'], ['InvalidInput']),
    ('SUM', ['1', '', 'n', 'n'], ['MissingInput']), ('L', ['', 'x'], ['MissingInput', None]),
]

# division by an exact zero, whatever the numerator (scalar, vector, matrix, itself zero or not) and however the zero is spelt
_ZD_NUMS = ['[0,0]', '[0,1]', '[1,2]', '([1,2]-[1,2])', '[[0,0],[0,0]]', '[[1,2],[3,4]]', '0*[1,2]', '[0,0]*1', '0', '1', 'i',
            '[i,0]', '[0,0,0]', '-[0,0]']
_ZD_ZEROS = ['0', '(1-1)', '0*i', '(0*i)', 'sin(0)', '0.0', '(2-2)', '-0', '(i-i)', '0^2', '(0+0*i)']
FAULT_TABLE += [('M', n + '/' + z, ['CalcZeroDivisionError']) for n in _ZD_NUMS for z in _ZD_ZEROS]
FAULT_TABLE += [('M', n + '/[0]', ['CalcZeroDivisionError']) for n in _ZD_NUMS if '[' in n]


def gates(tier):
    return {'calls': 15000, 'inner_mitx_errors': 3000, 'inner_foreign_errors': 200, 'generic_messages_checked': 200,
            'object_inputs': 1500, 'fault_table_cases': 50, 'distinct_inner_foreign_classes': 20,
            'returned': 3000, 'deep_or_long_inputs': 200}


def student_facing(exc):
    from mitxgraders.exceptions import StudentFacingError
    return isinstance(exc, StudentFacingError)


def is_mitx(exc):
    from mitxgraders.exceptions import MITxError
    return isinstance(exc, MITxError)


class InnerTap(object):
    """Wraps grader.check on the instance; remembers what left the guarded region."""

    def __init__(self, grader):
        self.exc = None
        self.called = False
        orig = grader.check

        def check(answers, student_input, **kwargs):
            self.called = True
            try:
                return orig(answers, student_input, **kwargs)
            except Exception as exc:  # noqa
                self.exc = exc
                raise
        grader.check = check

    def reset(self):
        self.exc, self.called = None, False


def mutate(rng, s):
    """Hostile mutations of a valid formula string."""
    if not s:
        return s
    k = rng.choice(['pole', 'overflow', 'zerozero', 'complex', 'shape', 'bracket_ins', 'bracket_del', 'bracket_swap', 'unknown',
                    'arity', 'unicode', 'control', 'dup_op', 'truncate', 'none'])
    i = rng.randrange(len(s) + 1)
    if k == 'pole':
        return s + rng.choice(['+1/0', '+cot(0)', '/(2-2)', '+ln(0)', '+arctanh(1)', '+0^(0-1)'])
    if k == 'overflow':
        return s + rng.choice(['+10^400', '*exp(800)', '+2^2^2^2^2^2', '+sinh(900)', '+1e308*10'])
    if k == 'zerozero':
        return s + rng.choice(['+0/0', '+(x-x)/(x-x)', '+0*ln(0)', '+0^0'])
    if k == 'complex':
        return rng.choice(['floor(%s+i)', 'max(%s,i)', 'arctan2(%s,i)', '(%s)+sqrt(-4)', 'ceil(i*(%s))']) % s
    if k == 'shape':
        return rng.choice(['[%s,1]+[1,2,3]', '[1,2]*[%s]*[3,4]*[1]', '(%s)+[1,2]', '[[1,2],[3]]+%s', '1/[%s,2]', '[%s,2]^2', 'sin([%s,1])',
                           '[1,2,3]*[[%s]]', 'det([%s,2])']) % s
    if k == 'bracket_ins':
        return s[:i] + rng.choice('()[]{}') + s[i:]
    if k == 'bracket_del':
        idx = [j for j, ch in enumerate(s) if ch in '()[]']
        if not idx:
            return s + ')'
        j = rng.choice(idx)
        return s[:j] + s[j + 1:]
    if k == 'bracket_swap':
        return s.replace('(', '[', 1) if '(' in s else '(' + s + ']'
    if k == 'unknown':
        return s + rng.choice(['+zork', '*Zork(2)', '+x_{99}', "+q''", '+2zz', '+secretvar', '+sibling_1'])
    if k == 'arity':
        return s + rng.choice(['+sin(1,2)', '+arctan2(1)', '+min(1)', '+sqrt()', '+kronecker(1,2,3)', '+cross(1,2)'])
    if k == 'unicode':
        return s[:i] + rng.choice([u'２', u'−', u'×', u'÷', u' ', u' ', u'π', u'√', u'²', u'٣', u'，', u'（']) + s[i:]
    if k == 'control':
        return s[:i] + rng.choice(['\x00', '\x07', '\x0b', '\x1f', '\x7f', '\r', '\n\n']) + s[i:]
    if k == 'dup_op':
        return s[:i] + rng.choice(['**', '//', '^^', '+*', '||', '|', ',,']) + s[i:]
    if k == 'truncate':
        return s[:i]
    return s


def hostile_input(rng, case):
    """One hostile input matching the grader's arity."""
    def one():
        r = rng.random()
        if r < 0.3:
            return rng.choice(GG.GARBAGE)
        if r < 0.45:
            base = rng.choice(case['good'] + case['partial'] + case['wrong'])
            base = base if isinstance(base, str) else rng.choice(base)
            return mutate(rng, base)
        if r < 0.5:
            d = rng.choice([60, 400, 3000, 20000])
            return rng.choice(['(' * d + 'x' + ')' * d, '[' * d + '1' + ']' * d, '+'.join(['x'] * min(d, 3000)), 'sin(' * min(d, 600) + '1' + ')' * min(d, 600),
                               '2^' * min(d, 3000) + '2', '-' * d + '1', ','.join(['a'] * min(d, 40)), '1' * d])
        gen = G.Gen(rng, ['x', 'y'], metric=False, arrays=rng.random() < 0.3)
        s = ''.join(G.toks(gen.scalar(rng.randint(1, 4))))
        for _ in range(rng.randint(0, 2)):
            s = mutate(rng, s)
        return s
    n = case['ninputs']
    if n is None:
        return one()
    if case['cls'] == 'SumGrader' and n == 1 and rng.random() < 0.5:
        return one()
    base = list(rng.choice(case['good'] + case['wrong']))
    out = [one() if rng.random() < 0.6 else b for b in base]
    if case['cls'] == 'SumGrader':
        # summation limits: the work is linear in the student's limits (documented), so limit fields only get
        # small integers, non-numeric garbage or bracket damage -- never generated arithmetic (exclusion recorded)
        pos = case['desc']['input_positions']
        for k in ('lower', 'upper'):
            if k in pos and pos[k] - 1 < len(out):
                out[pos[k] - 1] = rng.choice(['1', '6', '-3', '0', '2.5', 'i', 'pi', '', ' ', 'infty', '-infty', '(1', '1)', 'zork', 'n', '1+', u'２',
                                              '1/0', '3e2', '10^400', '\x00', 'x', '[1,2]', '7 ', '1,5'])
    if rng.random() < 0.1:
        out[rng.randrange(len(out))] = ''
    return out


OBJECT_INPUTS = [None, 5, 2.5, b'cat', ('a',), {'a': 1}, ['a', 5], ['a', None], [['a']], [b'x'], [], True, object]


def generic_message(inp):
    if isinstance(inp, list):
        return "Invalid Input: Could not check inputs '%s'" % "', '".join(inp)
    return "Invalid Input: Could not check input '%s'" % inp


def judge(ctx, case, tap, out, inp, wit):
    from mitxgraders.exceptions import StudentFacingError
    cls = case['cls']
    if out.kind == 'hang':
        ctx.violation('C02:%s:hang' % cls, 'call did not terminate within the CPU budget (twice)', wit)
        return
    inner = tap.exc
    if out.returned:
        ctx.count('returned')
        if inner is not None:
            # an exception left check() but the call returned: only legal if check was re-entered (it is not)
            ctx.violation('C02:%s:exception_swallowed' % cls, 'inner %r but the call returned %r' % (inner, out.value), wit)
        return
    exc = out.exc
    ctx.nontrivial(wit)
    if not is_mitx(exc):
        ctx.violation('C02:%s:foreign_exception_escaped:%s' % (cls, type(exc).__name__),
                      '%s escaped the call: %s' % (type(exc).__name__, str(exc)[:200]), wit)
        return
    if inner is None:
        ctx.count('raised_outside_check')     # ensure_text_inputs / expect inference: already a library error
        return
    if is_mitx(inner):
        ctx.count('inner_mitx_errors')
        ctx.count('inner_class:' + type(inner).__name__)
        want = str(inner).replace('\n', '<br/>')
        if type(exc) is not type(inner):
            ctx.violation('C02:%s:anticipated_error_class_changed' % cls,
                          'inner %s became %s' % (type(inner).__name__, type(exc).__name__), wit)
        elif str(exc) != want:
            ctx.violation('C02:%s:anticipated_error_message' % cls, 'inner message %r became %r' % (str(inner)[:200], str(exc)[:200]), wit)
        elif '\n' in str(inner):
            ctx.count('br_conversions_checked')
    else:
        ctx.count('inner_foreign_errors')
        ctx.count('inner_foreign:' + type(inner).__name__)
        ctx.note('inner_foreign_seen:' + type(inner).__name__, str(inner)[:80])
        if type(exc) is not StudentFacingError:
            ctx.violation('C02:%s:unanticipated_error_not_generic' % cls,
                          'inner %r surfaced as %s' % (inner, type(exc).__name__), wit)
        else:
            ctx.count('generic_messages_checked')
            if str(exc) != generic_message(inp):
                ctx.violation('C02:%s:generic_message' % cls, 'message %r does not name the submission(s) as %r'
                              % (str(exc)[:200], generic_message(inp)[:200]), wit)


def run_hostile(ctx):
    rng = ctx.rng
    F = GG.Factory(rng)
    for i in range(ctx.n(3200, 60000)):
        case = F.any() if i % 4 else F.random_config()      # every fourth case: several options drawn together from the documented domains
        try:
            g = case['make'](debug=False)
        except Exception as exc:  # noqa
            if case.get('random_config'):
                ctx.count('random_option_combinations_rejected')
                continue
            ctx.inconclusive_because('harness: generated configuration rejected: %r' % (exc,))
            return
        if case.get('random_config'):
            ctx.count('random_option_combinations')
        tap = InnerTap(g)
        for j in range(ctx.pick(7, 12)):
            inp = hostile_input(rng, case)
            expect = rng.choice([None, None, 'cat', '1+', '(', 'a,,b', '[1,2)', ''])
            if case.get('needs_expect') and expect is None:
                expect = 'cat'
            tap.reset()
            ctx.seed_case(i, j)
            out = lib.call(ctx, g, expect, inp, _budget=6.0)
            ctx.ev()
            ctx.count('calls')
            big = (isinstance(inp, str) and len(inp) > 1000) or (isinstance(inp, list) and any(len(x) > 1000 for x in inp))
            if big:
                ctx.count('deep_or_long_inputs')
            show = inp if not big else (inp[:60] + '...(%d chars)' % len(inp) if isinstance(inp, str) else [x[:40] for x in inp])
            wit = {'grader': case['desc'], 'expect': expect, 'input': show, 'outcome': out.brief(),
                   'inner': None if tap.exc is None else {'class': type(tap.exc).__name__, 'msg': str(tap.exc)[:200]}}
            judge(ctx, case, tap, out, inp, wit)
        if i < 2:
            ctx.sample({'grader': case['desc'], 'example_input': show})


def run_objects(ctx):
    rng = ctx.rng
    F = GG.Factory(rng)
    for i in range(ctx.n(480, 6000)):
        case = F.any()
        g = case['make'](debug=False)
        import mitxgraders as M
        noans = {'StringGrader': lambda: M.StringGrader(), 'FormulaGrader': lambda: M.FormulaGrader(),
                 'NumericalGrader': lambda: M.NumericalGrader(), 'MatrixGrader': lambda: M.MatrixGrader(),
                 'SingleListGrader': lambda: M.SingleListGrader(subgrader=M.StringGrader())}.get(case['cls'])
        extra = ['a'] if case['cls'] == 'ListGrader' else [['a'], ['a', 'b']] if case['cls'] != 'SumGrader' else []
        for obj in OBJECT_INPUTS + extra:
            variants = [('configured', lambda: case['make'](debug=False), None), ('configured', lambda: case['make'](debug=False), 'cat')]
            if noans is not None:
                # answers inferred from expect: the inference path runs before input validation
                variants.append(('inferring', noans, 'cat'))
            for vname, mk, expect in variants:
                if isinstance(obj, list) and obj and all(isinstance(x, str) for x in obj) and case['ninputs'] is not None and vname == 'configured':
                    continue      # a list of text is legitimate for multi-input graders
                if isinstance(obj, str) and case['ninputs'] is None:
                    continue
                grader = mk()      # a fresh instance per call: no state carried over from an earlier refusal
                out = lib.call(ctx, grader, expect, obj)
                ctx.ev()
                ctx.count('calls')
                ctx.count('object_inputs')
                wit = {'grader': case['desc'] if vname == 'configured' else case['cls'] + '() without answers (inferring from expect)',
                       'expect': expect, 'input_object': repr(obj)[:80], 'outcome': out.brief()}
                ctx.nontrivial(wit)
                if out.returned:
                    ctx.violation('C02:%s:non_text_input_graded' % case['cls'], 'input %r was graded: %r' % (obj, out.value), wit)
                elif lib.err_family(out.exc) != 'ConfigError':
                    ctx.violation('C02:%s:non_text_input_error_class:%s:%s' % (case['cls'], vname, type(out.exc).__name__),
                                  'input %r raised %r instead of ConfigError' % (obj, out.exc), wit)


def run_registered_defaults(ctx):
    """Course-wide defaults registered the way plugins/defaults_sample.py shows (values that are objects: a credit schedule, a
    function table): calls return or raise library errors like any other call."""
    import mitxgraders as M
    from mitxgraders.baseclasses import AbstractGrader
    rng = ctx.rng
    plans = [
        (AbstractGrader, {'attempt_based_credit': M.ReciprocalCredit(), 'attempt_based_credit_msg': True}, lambda: M.StringGrader(answers='cat'), 'cat', {'attempt': 2}),
        (AbstractGrader, {'attempt_based_credit': M.LinearCredit()}, lambda: M.FormulaGrader(answers='x', variables=['x']), 'x', {'attempt': 3}),
        (M.FormulaGrader, {'user_functions': {'f': abs}, 'user_constants': {'c': 2.5}}, lambda: M.FormulaGrader(answers='f(c)*x', variables=['x']), '2.5*x', {}),
        (M.MatrixGrader, {'entry_partial_credit': 'proportional'}, lambda: M.MatrixGrader(answers='[1,2]'), '[1,3]', {}),
        (M.StringGrader, {'case_sensitive': False, 'wrong_msg': 'no {braces}'}, lambda: M.StringGrader(answers='Cat'), 'cat!', {}),
        (M.ListGrader, {'partial_credit': False}, lambda: M.ListGrader(answers=['a', 'b'], subgraders=M.StringGrader()), ['a', 'x'], {}),
    ]
    for i in range(ctx.pick(12, 120)):
        cls, defaults, make, inp, kw = plans[i % len(plans)]
        cls.register_defaults(dict(defaults))
        try:
            made = lib.call(ctx, make)
            if not made.returned:
                if not is_mitx(made.exc):
                    ctx.violation('C02:registered_defaults:constructor:' + type(made.exc).__name__, repr(made.exc), {'registered_on': cls.__name__, 'defaults': defaults})
                continue
            for debug_inp in (inp, rng.choice(GG.GARBAGE)):
                out = lib.call(ctx, made.value, None, list(debug_inp) if isinstance(debug_inp, list) else debug_inp, **kw)
                ctx.ev()
                ctx.count('calls')
                ctx.count('registered_defaults_calls')
                wit = {'registered_on': cls.__name__, 'defaults': defaults, 'input': debug_inp, 'outcome': out.brief()}
                ctx.nontrivial(['regdef', cls.__name__, i, repr(debug_inp)[:40]])
                if not out.returned and not is_mitx(out.exc):
                    ctx.violation('C02:registered_defaults:foreign_exception:' + type(out.exc).__name__,
                                  'a grader built under registered defaults raised %r' % (out.exc,), wit)
        finally:
            cls.clear_registered_defaults()


class _Text(str):
    """A subclass of str: text like any other."""


def run_text_subclasses(ctx):
    """Positive control of the input-type rule: instances of str SUBCLASSES (numpy.str_, a user class) are text and are graded
    exactly like the plain string."""
    import numpy as np
    rng = ctx.rng
    F = GG.Factory(rng)
    for i in range(ctx.n(320, 4000)):
        case = F.any()
        pool = case['good'] + case['partial'] + case['wrong']
        inp = rng.choice(pool)
        conv = rng.choice([np.str_, _Text])
        sub = [conv(x) for x in inp] if isinstance(inp, list) else conv(inp)
        expect = 'cat' if case.get('needs_expect') else None
        ctx.seed_case('textsub', i)
        plain = lib.call(ctx, case['make'](debug=False), expect, list(inp) if isinstance(inp, list) else inp)
        ctx.seed_case('textsub', i)
        out = lib.call(ctx, case['make'](debug=False), expect, sub)
        ctx.ev()
        ctx.count('calls')
        ctx.count('text_subclass_inputs')
        wit = {'grader': case['desc'], 'input': inp, 'given_as': conv.__name__, 'plain_outcome': plain.brief(), 'outcome': out.brief()}
        ctx.nontrivial(['textsub', case['cls'], repr(inp)[:50], conv.__name__])
        if plain.brief() != out.brief():
            ctx.violation('C02:%s:text_subclass_input_treated_differently' % case['cls'], 'plain str: %r; %s: %r' % (plain.brief(), conv.__name__, out.brief()), wit)


def run_table(ctx):
    import mitxgraders as M
    rng = ctx.rng

    def mk(kind):
        if kind == 'F':
            return rng.choice([M.FormulaGrader(answers='x', variables=['x']), M.NumericalGrader(answers='1')]) if True else None
        if kind == 'M':
            return M.MatrixGrader(answers='[1,2]', variables=['x'], max_array_dim=2)
        if kind == 'SL':
            return M.SingleListGrader(answers=['a', 'b'], subgrader=M.StringGrader())
        if kind == 'SLL':
            return M.SingleListGrader(answers=['a', 'b'], subgrader=M.StringGrader(), length_error=True)
        if kind == 'S_any':
            return M.StringGrader(accept_any=True, min_length=5)
        if kind == 'S_pat':
            return M.StringGrader(answers='cat', validation_pattern='[a-z]+')
        if kind == 'I':
            return M.IntervalGrader(answers='[1,2]')
        if kind == 'SUM2':
            return M.SumGrader(answers={'lower': '1', 'upper': '5', 'summand': 'n', 'summation_variable': 'n'}, input_positions={'lower': 1, 'upper': 2})
        if kind == 'FMS':
            return M.FormulaGrader(answers='2k', metric_suffixes=True)
        if kind == 'LNA':
            return M.ListGrader(answers=(), subgraders=M.StringGrader())
        if kind == 'SLNA':
            return M.SingleListGrader(subgrader=M.StringGrader())
        if kind == 'LGG':
            return M.ListGrader(answers=[['a', 'b'], ['c', 'd']], subgraders=M.ListGrader(subgraders=M.StringGrader()), grouping=[1, 1, 2, 2])
        if kind == 'FI':
            return M.FormulaGrader(answers='N', user_constants={'N': 9})
        if kind == 'FIR':
            return M.FormulaGrader(answers='n', variables=['n'], sample_from={'n': M.IntegerRange([7, 9])})
        if kind == 'UF':
            def asrt(x):
                assert x < 0
                return x

            def stp(x):
                raise StopIteration('domain')
            return M.FormulaGrader(answers='1', user_functions={'tab': lambda x: [1, 2, 3][int(x)], 'kk': lambda x: {1: 2}[x],
                                                                 'att': lambda x: x.shape[0], 'asrt': asrt, 'stp': stp})
        if kind == 'LIN2':
            from mitxgraders.comparers import LinearComparer
            return M.FormulaGrader(answers={'comparer': LinearComparer(), 'comparer_params': ['x']}, variables=['x'], samples=2)
        if kind == 'SPANBAD':
            from mitxgraders.comparers import vector_span_comparer
            return M.MatrixGrader(answers={'comparer': vector_span_comparer, 'comparer_params': ['[1,2]', '3']})
        if kind == 'PHASEBAD':
            from mitxgraders.comparers import vector_phase_comparer
            return M.MatrixGrader(answers={'comparer': vector_phase_comparer, 'comparer_params': ['[1,2]', '[1,2]']})
        if kind == 'IB':
            return M.IntervalGrader(answers='{1,2]', opening_brackets='([{', closing_brackets=')]}')
        if kind in ('ML', 'MLV', 'MV'):
            from mitxgraders.comparers import LinearComparer
            sf = {'A': M.RealMatrices(shape=[2, 2]), 'v': M.RealVectors(shape=2)}
            expect = {'ML': rng.choice(['trace(A)+x', 'v*v', 'det(A)']), 'MLV': 'A*v', 'MV': 'A*v'}[kind]
            ans = expect if kind == 'MV' else {'comparer': LinearComparer(), 'comparer_params': [expect]}
            return M.MatrixGrader(answers=ans, variables=['x', 'A', 'v'], sample_from=sf, max_array_dim=2)
        if kind == 'SUM':
            return M.SumGrader(answers={'lower': '1', 'upper': '3', 'summand': 'n', 'summation_variable': 'n'})
        if kind == 'L':
            return M.ListGrader(answers=['x', 'sibling_1^2'], subgraders=M.FormulaGrader(variables=['x']), ordered=True)
    for kind, inp, allowed in FAULT_TABLE:
        g = mk(kind)
        if kind == 'F' and isinstance(g, M.NumericalGrader) and 'x' in inp:
            g = M.FormulaGrader(answers='x', variables=['x'])
        tap = InnerTap(g)
        out = lib.call(ctx, g, None, list(inp) if isinstance(inp, list) else inp)
        ctx.ev()
        ctx.count('calls')
        ctx.count('fault_table_cases')
        wit = {'grader': type(g).__name__, 'input': inp, 'documented_error': allowed, 'outcome': out.brief()}
        ctx.nontrivial(wit)
        if out.returned:
            if None not in allowed:
                ctx.violation('C02:anticipated_problem_graded:' + allowed[0], '%r returned %r' % (inp, out.value), wit)
            continue
        from mitxgraders.helpers.calc.exceptions import CalcError
        names = [c.__name__ for c in type(out.exc).__mro__]
        if not any(a in names for a in allowed if a):
            ctx.violation('C02:anticipated_problem_class:' + allowed[0],
                          '%r raised %s (%s), documented: %s' % (inp, type(out.exc).__name__, str(out.exc)[:100], '/'.join(a for a in allowed if a)), wit)
        judge(ctx, {'cls': type(g).__name__}, tap, out, inp, wit)


def run(ctx):
    run_hostile(ctx)
    if ctx.inconclusive:
        return
    run_objects(ctx)
    run_registered_defaults(ctx)
    run_text_subclasses(ctx)
    run_table(ctx)
    ctx.count('distinct_inner_foreign_classes', len([k for k in ctx.counters if k.startswith('inner_foreign:')]))
