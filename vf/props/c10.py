"""
C10 -- reported name usage is exact and parsing is independent of parse history.

Monitors:
 (A) parse(s).variables_used / functions_used / suffixes_used (and evaluator(...)[1]) against
     the name sets known by construction from the generating derivation, plus hand-listed
     confusable strings;
 (B) history differential: every event sequence (string x {parse, eval in scope A, eval in
     scope B}) up to length 3 (4 in thorough) on the shared process-wide parser is compared,
     step by step, with the outcome the same operation has on a freshly constructed
     MathParser; random longer sequences likewise;
 (C) invariant at a hook on MathParser.parse (installed on the class from the harness): after
     every return or raise the shared parser's scratch sets are empty, no cached expression
     aliases them, and no cached expression's sets have changed since they were first seen.
"""
import itertools
import random

import numpy as np

from vf import gen_expr as G
from vf import lib

RULE = ('(A) random derivations with names that are prefixes of each other, variables named like '
        'functions, primes, underscores, tensor indices, suffix letters next to e-exponents, names '
        'only inside arrays / exponents, in 3 renderings each + 40 hand-listed confusables; '
        '(B) exhaustive event sequences of length <=3 (quick) / <=4 (thorough) over 12 strings x 3 '
        'operations on the shared parser (cold cache per sequence) + random sequences of length '
        '<=64 over 60 strings. Non-trivial: (A) derivation with >=2 distinct names; (B) sequence '
        'containing a failing event or a cache hit (same key twice). Distinct by string / sequence.')
ASSUMPTIONS = ['"fresh" = a newly constructed MathParser installed as the module-level PARSER while '
               'the baseline outcome is computed',
               'for exceptions outside the library family (RecursionError on deep nesting) only the '
               'class is compared']

HOOK = {'calls': 0, 'violations': [], 'snap': {}}


def gates(tier):
    return {'name_set_checks': 6000, 'confusable_checks': 40, 'history_steps': 60000,
            'history_sequences': 20000, 'failing_events_in_histories': 10000,
            'cache_hits_in_histories': 5000, 'hook_calls': 60000, 'random_histories': 100, 'absolute_probes': 500, 'arity_checks': 4000, 'reentrant_evaluations': 1200}


# ----------------------------------------------------------------------------- (C) hook
def install_hook(ctx):
    from mitxgraders.helpers.calc import expressions as E
    orig = E.MathParser.parse
    if getattr(orig, '_vf_wrapped', False):
        return

    def check(self, where, expression):
        HOOK['calls'] += 1
        if self.variables_used or self.functions_used or self.suffixes_used:
            ctx.violation('C10:hook:scratch_not_empty:' + where,
                          'after parse(%r) %s the scratch sets hold %r / %r / %r' % (
                              expression[:80], where, sorted(self.variables_used),
                              sorted(self.functions_used), sorted(self.suffixes_used)),
                          {'expression': expression[:200]})
        # only the entry touched by this call can be new; check it (cheap) and a sample
        key = expression.replace(' ', '')
        ent = self.cache.get(key)
        if ent is not None and not hasattr(ent, 'variables_used'):
            HOOK['foreign_cache_entries'] = HOOK.get('foreign_cache_entries', 0) + 1    # not ours to judge; never disturb the call
            ent = None
        if ent is not None:
            for nm in ('variables_used', 'functions_used', 'suffixes_used'):
                if getattr(ent, nm) is getattr(self, nm):
                    ctx.violation('C10:hook:cached_set_aliases_scratch', 'cache[%r].%s is the scratch set' % (key[:80], nm),
                                  {'expression': expression[:200]})
            snap = (frozenset(ent.variables_used), frozenset(ent.functions_used), frozenset(ent.suffixes_used))
            tag = (id(self), key)
            old = HOOK['snap'].get(tag)
            if old is None:
                HOOK['snap'][tag] = (ent, snap)
            elif old[0] is ent and old[1] != snap:
                ctx.violation('C10:hook:cached_sets_changed', 'name sets of cached %r changed from %r to %r' % (
                    key[:80], [sorted(x) for x in old[1]], [sorted(x) for x in snap]), {'expression': expression[:200]})
            elif old[0] is not ent:
                HOOK['snap'][tag] = (ent, snap)

    def wrapped(self, expression):
        try:
            out = orig(self, expression)
        except BaseException:
            check(self, 'raised', expression)
            raise
        check(self, 'returned', expression)
        return out
    wrapped._vf_wrapped = True
    E.MathParser.parse = wrapped


# ----------------------------------------------------------------------------- outcomes
def norm_value(v):
    if isinstance(v, np.ndarray):
        return ('arr', v.shape, tuple(np.asarray(v).ravel().tolist()))
    if isinstance(v, float) and v != v:
        return 'nan'
    return v


def outcome_of(fn):
    from mitxgraders.helpers.calc.exceptions import CalcError
    try:
        return ('ok', fn())
    except CalcError as exc:
        return ('exc', type(exc).__name__, str(exc))
    except RecursionError as exc:
        return ('exc', 'RecursionError', '')
    except Exception as exc:  # noqa
        return ('exc', type(exc).__name__, str(exc))


def do_parse(s):
    from mitxgraders.helpers.calc import expressions as E

    def run():
        p = E.parse(s)
        return (frozenset(p.variables_used), frozenset(p.functions_used), frozenset(p.suffixes_used),
                repr(p.tree.as_list()))
    return outcome_of(run)


def do_eval(s, scope):
    from mitxgraders.helpers.calc import expressions as E

    def run():
        v, meta = E.evaluator(s, scope[0], scope[1], scope[2])
        return (norm_value(v), frozenset(meta.variables_used), frozenset(meta.functions_used),
                frozenset(meta.suffixes_used), meta.max_array_dim_used)
    return outcome_of(run)


def with_fresh_parser(fn):
    from mitxgraders.helpers.calc import expressions as E
    shared = E.PARSER
    E.PARSER = E.MathParser()
    try:
        return fn()
    finally:
        E.PARSER = shared


def scopes():
    from mitxgraders.helpers.calc import DEFAULT_FUNCTIONS, DEFAULT_VARIABLES
    fa = dict(DEFAULT_FUNCTIONS)
    fa['f'] = lambda a, b: a + 2 * b
    va = dict(DEFAULT_VARIABLES)
    from mitxgraders.helpers.calc import MathArray
    va.update({'x': 2.0, 'y': 3.0, 'f': 1.5, 'depthvar': 1.0, 'k': 5.0, 'vv': MathArray([1.0, 2.0])})
    A = (va, fa, {'%': 0.01, 'k': 1000.0})
    vb = dict(DEFAULT_VARIABLES)
    vb.update({'x': -1.0, 'y': 0.0, 'undefinedvar': 4.0, 'vv': 2.0})
    fb = dict(DEFAULT_FUNCTIONS)
    fb['zork'] = lambda a: a
    B = (vb, fb, {'%': 0.01, 'M': 5.0, 'k': 1024.0})
    return A, B


DEEP = 'depthvar+sin(2k)+' + '(' * 300 + 'x' + ')' * 300
ALPHABET = [
    'x+y*2', 'x + y*2', 'x+\ty*2', 'sin(x)+f(y,2k)', 'f+f(x,f)', '(x+y', 'x+*y',
    'zork(x)+ * 2k', 'undefinedvar+x', DEEP, '[x,y]*[1,2]+3%', '  ',
    'x1+y', 'x\t1+y',      # a tab inside a name is significant: the second string is outside the grammar
    '[vv,vv]+0*[vv,vv]',   # vv is a vector in scope A (the literal is a matrix) and a number in scope B (a vector)
    'x +* y', 'zork(x)+*2k',   # blank variants of malformed strings above: every message quotes the caller's own spelling
    '5k+3%', '2M',             # no names at all: the value still depends on the suffix table of the CURRENT call (k only in A, M only in B)
]


OVERFLOW_PROBES = [
    ('exp(1000)', ('exc', 'CalcOverflowError', 'There was an error evaluating exp(...). (Numerical overflow).')),
    ('sech(1000)', ('exc', 'CalcOverflowError', 'There was an error evaluating sech(...). (Numerical overflow).')),
    ('cosh(1000)', ('exc', 'CalcOverflowError', 'There was an error evaluating cosh(...). (Numerical overflow).')),
    ('1e300*1e300', ('exc', 'CalcOverflowError', 'Numerical overflow occurred. Does your expression generate very large numbers?')),
    ('10^400', ('exc', 'CalcOverflowError', 'Numerical overflow occurred. Does your input generate very large numbers?')),
]


def apply_event(ev, A, B):
    s, op = ev
    if op == 'parse':
        return do_parse(s)
    return do_eval(s, A if op == 'evalA' else B)


def same_outcome(a, b):
    if a[0] != b[0]:
        return False
    if a[0] == 'exc':
        if a[1] != b[1]:
            return False
        return a[2] == b[2]
    return a[1] == b[1]


def run_histories(ctx):
    from mitxgraders.helpers.calc import expressions as E
    A, B = scopes()
    events = [(s, op) for s in ALPHABET for op in ('parse', 'evalA', 'evalB')]
    baseline = {}
    for ev in events:
        baseline[ev] = with_fresh_parser(lambda: apply_event(ev, A, B))
    # the baselines themselves must be deterministic (fresh parser twice)
    for ev in events:
        again = with_fresh_parser(lambda: apply_event(ev, A, B))
        if not same_outcome(again, baseline[ev]):
            ctx.inconclusive_because('harness: baseline of %r is not deterministic: %r vs %r' % (ev, baseline[ev], again))
            return
    failing = set(ev for ev in events if baseline[ev][0] == 'exc')
    ctx.note('history_alphabet', [{'string': (s if len(s) < 40 else s[:30] + '...(%d chars)' % len(s)), 'op': op,
                                   'baseline': baseline[(s, op)][0] if baseline[(s, op)][0] == 'ok' else baseline[(s, op)][1]}
                                  for s, op in events])
    maxlen = ctx.pick(3, 4)
    idx = 0
    for length in range(1, maxlen + 1):
        n = 0
        # length 4 (thorough) runs over the first 12 strings (36 events, 1.7M sequences); shorter ones over all
        nev = len(events) if length <= 3 else 36
        for seq in itertools.product(range(nev), repeat=length):
            idx += 1
            if not ctx.mine(idx):
                continue
            n += 1
            E.PARSER.cache.clear()          # cold cache; any other leftover state stays
            keys = set()
            hit = False
            for pos, ei in enumerate(seq):
                ev = events[ei]
                got = apply_event(ev, A, B)
                ctx.ev()
                ctx.count('history_steps')
                k = ev[0].replace(' ', '').strip()
                if k in keys:
                    hit = True
                keys.add(k)
                if not same_outcome(got, baseline[ev]):
                    prev = events[seq[pos - 1]] if pos else None
                    kind = ('after_failure' if prev in failing else 'after_success') if prev else 'first'
                    ctx.violation('C10:history:%s:%s' % (ev[1], kind),
                                  'step %d of %r: got %r, a fresh parser gives %r' % (
                                      pos, [(events[i][0][:40], events[i][1]) for i in seq], str(got)[:300], str(baseline[ev])[:300]),
                                  {'sequence': [(events[i][0][:60], events[i][1]) for i in seq], 'step': pos})
            ctx.count('history_sequences')
            nfail = sum(1 for i in seq if events[i] in failing)
            ctx.count('failing_events_in_histories', nfail)
            if hit:
                ctx.count('cache_hits_in_histories')
            if nfail or hit:
                ctx.nontrivial(['hist', seq])
        ctx.subspace('event sequences of length %d over %d events' % (length, nev), n, True)
    if ctx.shard == 0:
        ctx.sample({'history': [(ALPHABET[3], 'evalA'), (ALPHABET[7], 'parse'), (ALPHABET[1], 'evalB')],
                    'baselines': [str(baseline[(ALPHABET[3], 'evalA')])[:200], str(baseline[(ALPHABET[7], 'parse')])[:200],
                                  str(baseline[(ALPHABET[1], 'evalB')])[:200]]})


def run_random_histories(ctx):
    """Longer random sequences over generated valid/invalid strings, without clearing the cache."""
    from vf.props import c03
    rng = ctx.rng
    A, B = scopes()
    pool = list(ALPHABET)
    for _ in range(50):
        gen = G.Gen(rng, ['x', 'y', 'f', 'k', 'depthvar'], func_names=['sin', 'cos', 'f'], metric=False, arrays=True)
        toks = G.toks(gen.scalar(rng.randint(1, 3)))
        pool.append(G.join(toks, rng, rng.choice(['plain', 'spaces', 'tabs'])))
        if len(toks) > 2 and rng.random() < 0.5:
            # whitespace variants that are NOT equivalent: a tab inside a name / number
            plain = ''.join(toks)
            k = rng.randrange(1, len(plain))
            if plain[k - 1].isalnum() and plain[k].isalnum():
                pool.append(plain)
                pool.append(plain[:k] + '\t' + plain[k:])
        made = c03.make_invalid(rng, toks)
        if made:
            pool.append(made[1])
            spaced = made[1].replace('*', ' * ').replace('+', ' +').replace(')', ') ')
            if spaced != made[1] and rng.random() < 0.5:
                pool.append(spaced)       # same cache key, different spelling
        if rng.random() < 0.3:
            # array literals of names whose dimension depends on the scope
            pool.append(rng.choice(['[vv,vv]', '2*[vv,x]', '[vv,vv]+[vv,vv]', '[[vv,vv],[vv,vv]]', '[vv, vv]*2']))
    baseline = {}
    from mitxgraders import SumGrader, FormulaGrader
    for i in range(ctx.n(320, 6000)):
        length = rng.randint(5, 64)
        seq = [(rng.choice(pool), rng.choice(['parse', 'evalA', 'evalB'])) for _ in range(length)]
        # other consumers of the shared parser run in between: a SumGrader whose limits call functions and a
        # FormulaGrader, both fed strings from the same pool (they must not disturb what parse() reports)
        sg = SumGrader(answers={'lower': '1', 'upper': '4', 'summand': 'x', 'summation_variable': 'x'})
        fg = FormulaGrader(answers='x+y', variables=['x', 'y', 'f', 'k', 'depthvar'])
        from mitxgraders import MatrixGrader
        mg = MatrixGrader(answers='[x,y]', variables=['x', 'y'], negative_powers=False, max_array_dim=2)
        for pos, ev in enumerate(seq):
            if pos % 5 == 2:
                lib.call(ctx, sg, None, ['abs(0-1)', 'floor(4.5)', ev[0], 'nn'])
                ctx.count('interleaved_grader_calls')
            elif pos % 5 == 4:
                lib.call(ctx, fg, None, ev[0])
                ctx.count('interleaved_grader_calls')
            elif pos % 5 == 3:
                # a matrix grader with negative powers switched off (its calls mostly raise on these strings), then an
                # ABSOLUTE probe: the value of a matrix inverse does not depend on that history
                lib.call(ctx, mg, None, ev[0])
                ctx.count('interleaved_grader_calls')
                probe = do_eval('[[2,0],[0,4]]^-1', A)
                ctx.count('absolute_probes')
                if probe[0] != 'ok' or probe[1][0] != ('arr', (2, 2), (0.5, 0.0, 0.0, 0.25)):
                    ctx.violation('C10:history:absolute_probe', 'after a MatrixGrader(negative_powers=False) call on %r, [[2,0],[0,4]]^-1 gives %r'
                                  % (ev[0][:60], str(probe)[:200]), {'sequence': [(s[:60], op) for s, op in seq[:pos + 1]][-8:], 'step': pos})
                    break
            if pos % 5 == 1:
                # evaluations with infinities allowed (succeeding, raising in the string, raising by division by zero), then ABSOLUTE
                # probes of the overflow outcomes: what a fresh process gives, whatever was evaluated before and however it ended
                from mitxgraders.helpers.calc import expressions as E_
                for s_inf in (ev[0], '1/0', '1e300*1e300', 'x/(y-y)+1e300*1e300'):
                    outcome_of(lambda: E_.evaluator(s_inf, A[0], A[1], A[2], allow_inf=True))
                ctx.count('interleaved_allow_inf_evaluations')
                for ps, want in OVERFLOW_PROBES:
                    probe = do_eval(ps, A)
                    ctx.count('absolute_probes')
                    if probe[:3] != want:
                        ctx.violation('C10:history:absolute_probe:overflow', 'after evaluations with allow_inf=True (last: %r), %r gives %r; in a fresh process %r'
                                      % (ev[0][:60], ps, str(probe)[:200], want), {'sequence': [(s[:60], op) for s, op in seq[:pos + 1]][-8:], 'step': pos})
                        break
            if ev not in baseline:
                baseline[ev] = with_fresh_parser(lambda: apply_event(ev, A, B))
            got = apply_event(ev, A, B)
            ctx.ev()
            ctx.count('history_steps')
            if not same_outcome(got, baseline[ev]):
                ctx.violation('C10:history:random:' + ev[1],
                              'step %d: got %r, a fresh parser gives %r' % (pos, str(got)[:300], str(baseline[ev])[:300]),
                              {'sequence': [(s[:60], op) for s, op in seq[:pos + 1]][-8:], 'step': pos})
                break
        ctx.count('random_histories')
        ctx.nontrivial(['rh', [(s[:30], op) for s, op in seq]])


# ----------------------------------------------------------------------------- (A) name sets
CONFUSABLES = [
    # string, variables, functions, suffixes
    ('2e', [], [], ['e']), ('2e3', [], [], []), ('2e-x', ['x'], [], ['e']), ('2E+3k', [], [], ['k']),
    ('e^2e', ['e'], [], ['e']), ('2e+3e', [], [], ['e']), ('1e1e', [], [], ['e']), ('2E', [], [], ['E']),
    ('f+f(x)', ['f', 'x'], ['f'], []), ('f(f)', ['f'], ['f'], []), ('f(x)+f', ['f', 'x'], ['f'], []),
    ('sin(sin)', ['sin'], ['sin'], []), ('2^(h_1+h_1(3%))', ['h_1'], ['h_1'], ['%']),
    ("x'+x''", ["x'", "x''"], [], []), ("x'(x)", ['x'], ["x'"], []),
    ('a_b+a_b_c+a', ['a_b', 'a_b_c', 'a'], [], []), ('x1y+x1+x', ['x1y', 'x1', 'x'], [], []),
    ('T_{ij}^{k}*T_{ij}+T', ['T_{ij}^{k}', 'T_{ij}', 'T'], [], []), ('x^{2}+x^2', ['x^{2}', 'x'], [], []),
    ('x_{-1}^{-2}', ['x_{-1}^{-2}'], [], []), ('[a,b]^c', ['a', 'b', 'c'], [], []),
    ('2^[x,[y]]', ['x', 'y'], [], []), ('1k+k', ['k'], [], ['k']), ('pi2+pi', ['pi2', 'pi'], [], []),
    ('sinx+sin(x)', ['sinx', 'x'], ['sin'], []), ('5%+5k%', [], [], ['%', 'k%']), ('3M*M(M)', ['M'], ['M'], ['M']),
    ('a(b(c(d)))', ['d'], ['a', 'b', 'c'], []), ('a||b||c(d)', ['a', 'b', 'd'], ['c'], []),
    ('-x^-y', ['x', 'y'], [], []), ('x—y', ['x', 'y'], [], []), ('f(a,b)+g(a)', ['a', 'b'], ['f', 'g'], []),
    ('E+e+2E3+2e3', ['E', 'e'], [], []), (u'2e\u20143', [], [], []), (u'1.5E\u20142*x', ['x'], [], []), (u'.5e\u20141k', [], [], ['k']),
    (u'x\u20142e\u20143', ['x'], [], []), ('1.e2+1.e', [], [], ['e']), ('.5x', [], [], ['x']),
    ("y_1'+y_1", ["y_1'", 'y_1'], [], []), ('a^b^c', ['a', 'b', 'c'], [], []), ('[[a]]*[[b]]', ['a', 'b'], [], []),
    ('q_{0}+q_{10}+q_{a}', ['q_{0}', 'q_{10}', 'q_{a}'], [], []), ('z(1)(2)', None, None, None),
    ('abs(x)+Abs', ['x', 'Abs'], ['abs'], []), ('i+j+e+pi', ['i', 'j', 'e', 'pi'], [], []),
]


def run_names(ctx):
    from mitxgraders.helpers.calc import expressions as E
    rng = ctx.rng
    for s, v, f, suf in CONFUSABLES:
        ctx.ev()
        ctx.count('confusable_checks')
        out = do_parse(s)
        if v is None:
            if out[0] != 'exc':
                ctx.violation('C10:names:invalid_accepted', 'parse(%r) succeeded' % s, {'string': s})
            continue
        if out[0] != 'ok':
            ctx.violation('C10:names:confusable_rejected', 'parse(%r) raised %r' % (s, out), {'string': s})
            continue
        got = out[1][:3]
        want = (frozenset(v), frozenset(f), frozenset(suf))
        if got != want:
            which = [n for n, a, b in zip(('variables', 'functions', 'suffixes'), got, want) if a != b]
            ctx.violation('C10:names:confusable:' + '+'.join(which),
                          'parse(%r) reports %r, expected %r' % (s, [sorted(x) for x in got], [sorted(x) for x in want]),
                          {'string': s})
        ctx.nontrivial('conf:' + s)

    names = G.VAR_NAMES + ['f', 'g', 'h', 'sin', 'F', 'cos', 'e1', 'ab', 'abc', 'a1', "a'", 'a_{1}', 'a_{1}^{2}',
                           'h_1', 'sqrtx', 'M', 'G']
    bindings = G.make_bindings(random.Random(11), False, names)
    from vf.props.c03 import lib_scope
    for i in range(ctx.n(4800, 100000)):
        metric = i % 2 == 0
        gen = G.Gen(rng, names, metric=metric, arrays=(i % 3 == 0))
        depth = rng.randint(1, 4)
        node = gen.scalar(depth) if i % 3 else gen.vector(rng.randint(2, 3), min(depth, 2))
        tokens = G.toks(node)
        if len(tokens) > 70:
            continue
        want = (frozenset(gen.used_vars), frozenset(gen.used_funcs), frozenset(gen.used_sufs))
        scope = lib_scope(bindings, metric)
        for mode in ('plain', 'spaces', 'parens', 'emdash'):
            if mode == 'parens':
                s = ''.join(G.toks(G.add_redundant_parens(node, rng)))
            else:
                s = G.join(tokens, rng, mode)
            out = do_parse(s)
            ctx.ev()
            ctx.count('name_set_checks')
            wit = {'string': s, 'expected': [sorted(x) for x in want]}
            if out[0] != 'ok':
                ctx.violation('C10:names:valid_rejected', 'parse raised %r' % (out,), wit)
                continue
            got = out[1][:3]
            if got != want:
                which = [n for n, a, b in zip(('variables', 'functions', 'suffixes'), got, want) if a != b]
                ctx.violation('C10:names:' + '+'.join(which),
                              'reported %r, the derivation uses %r' % ([sorted(x) for x in got], [sorted(x) for x in want]), wit)
            ev = do_eval(s, scope)
            ctx.ev()
            if ev[0] == 'ok' and tuple(ev[1][1:4]) != want:
                ctx.violation('C10:names:evaluator_metadata', 'evaluator metadata %r != %r' % (
                    [sorted(x) for x in ev[1][1:4]], [sorted(x) for x in want]), wit)
        if len(gen.used_vars | gen.used_funcs | gen.used_sufs) >= 2:
            ctx.nontrivial('names:' + ''.join(tokens))
        if i < 3:
            ctx.sample({'string': ''.join(tokens), 'variables': sorted(gen.used_vars),
                        'functions': sorted(gen.used_funcs), 'suffixes': sorted(gen.used_sufs)})


def run_arity(ctx):
    """Scope functions created for one call and thrown away: the arity that counts is that of the function passed NOW."""
    from mitxgraders.helpers.calc import expressions as E
    from mitxgraders.helpers.calc import DEFAULT_VARIABLES
    rng = ctx.rng

    def make_fn(k):
        if k == 1:
            return lambda a: a + 1.0
        if k == 2:
            return lambda a, b: a + 2.0 * b
        if k == 3:
            return lambda a, b, c: a + b * c
        return lambda a, b, c, d: a + b + c + d
    want = {1: lambda v: v[0] + 1.0, 2: lambda v: v[0] + 2.0 * v[1], 3: lambda v: v[0] + v[1] * v[2], 4: lambda v: sum(v)}
    for i in range(ctx.n(4800, 60000)):
        k = rng.randint(1, 4)
        m = rng.choice([k, k, rng.randint(1, 4)])
        vals = [float(rng.randint(1, 9)) for _ in range(m)]
        s = 'fn(%s)+0*%d' % (','.join('%r' % v for v in vals), rng.randint(0, 50))
        funcs = {'fn': make_fn(k)}          # a new function object every time; the previous one is garbage by now
        try:
            v, meta = E.evaluator(s, DEFAULT_VARIABLES, funcs, {'%': 0.01})
            out = ('ok', v)
        except Exception as exc:  # noqa
            out = ('exc', type(exc).__name__, str(exc)[:100])
        del funcs
        ctx.ev()
        ctx.count('arity_checks')
        wit = {'string': s, 'function_takes': k, 'arguments_given': m, 'outcome': str(out)[:200]}
        if m == k:
            if out[0] != 'ok' or abs(out[1] - want[k](vals)) > 1e-9:
                ctx.violation('C10:arity:correct_call_rejected', 'a %d-argument function called with %d arguments: %r' % (k, m, out), wit)
        else:
            ctx.nontrivial(['arity', k, m])
            if out[0] == 'ok' or out[1] != 'ArgumentError':
                ctx.violation('C10:arity:wrong_call_not_an_argument_error', 'a %d-argument function called with %d arguments: %r' % (k, m, out), wit)


def run_reentrant(ctx):
    """A scope function that itself evaluates a formula (in a scope of its own): the outer evaluation goes on in ITS scope."""
    from mitxgraders.helpers.calc import expressions as E
    from mitxgraders.helpers.calc import DEFAULT_VARIABLES, DEFAULT_FUNCTIONS, MathArray
    rng = ctx.rng
    for i in range(ctx.n(1600, 20000)):
        inner_x, inner_y = float(rng.randint(10, 20)), float(rng.randint(30, 40))
        x, y = float(rng.randint(1, 5)), float(rng.randint(6, 9))

        def g(t):
            # evaluated with other values for the same names, another function table and an array-valued variable
            v, _ = E.evaluator('x*y+h(t)+v*v', dict(DEFAULT_VARIABLES, x=inner_x, y=inner_y, t=t, v=MathArray([1.0, 2.0])),
                               dict(DEFAULT_FUNCTIONS, h=lambda a: a * 100.0), {'%': 0.5, 'k': 7.0})
            return v
        gval = lambda t: inner_x * inner_y + 100.0 * t + 5.0
        variables = dict(DEFAULT_VARIABLES, x=x, y=y)
        funcs = dict(DEFAULT_FUNCTIONS, g=g, h=lambda a: a + 1.0)
        cases = [('g(2)+y', gval(2) + y, set(['y']), set(['g'])), ('y+g(2)', y + gval(2), set(['y']), set(['g'])),
                 ('g(x)*x+h(y)', gval(x) * x + y + 1, set(['x', 'y']), set(['g', 'h'])), ('g(1)+10%+2k', gval(1) + 0.1 + 2000.0, set(), set(['g'])),
                 ('h(g(0))+x', gval(0) + 1 + x, set(['x']), set(['g', 'h']))]
        s_, want, vars_, funcs_ = rng.choice(cases)
        try:
            val, meta = E.evaluator(s_, variables, funcs, {'%': 0.01, 'k': 1000.0})
            out = ('ok', val, set(meta.variables_used), set(meta.functions_used), meta.max_array_dim_used)
        except Exception as exc:  # noqa
            out = ('exc', type(exc).__name__, str(exc)[:120])
        ctx.ev()
        ctx.count('reentrant_evaluations')
        wit = {'string': s_, 'outer_scope': {'x': x, 'y': y}, 'inner_scope': {'x': inner_x, 'y': inner_y}, 'outcome': str(out)[:300]}
        ctx.nontrivial(['reent', s_, x, y])
        if out[0] != 'ok':
            ctx.violation('C10:reentrant:raises', repr(out), wit)
        elif abs(out[1] - want) > 1e-9 * max(1.0, abs(want)):
            ctx.violation('C10:reentrant:value', 'got %r, the outer scope gives %r' % (out[1], want), wit)
        elif out[2] != vars_ or out[3] != funcs_ or out[4] != 0:
            ctx.violation('C10:reentrant:names', 'reported %r / %r / array dimension %r for %r' % (sorted(out[2]), sorted(out[3]), out[4], s_), wit)


def run(ctx):
    install_hook(ctx)
    run_arity(ctx)
    run_reentrant(ctx)
    run_names(ctx)
    run_histories(ctx)
    if ctx.inconclusive:
        return
    run_random_histories(ctx)
    ctx.count('hook_calls', HOOK['calls'])
    ctx.count('hook_cache_entries_of_unknown_kind', HOOK.get('foreign_cache_entries', 0))
    lib.repo_tests_under_monitor(ctx, 'C10', ['parse'])
