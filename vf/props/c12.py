"""
C12 -- every random draw satisfies all constraints its sampling set declares.

Oracle: membership predicates written from the documentation (numpy on the drawn values).
Monitor: every gen_sample() value of every sampler configuration on the option grids, and the
values of drawn random functions at many points (incl. re-evaluation for "a fixed function once
drawn").
"""
import itertools
import math

import numpy as np

from vf import lib

RULE = ('sampler classes x option grids: Real/Integer intervals incl. degenerate, reversed, negative; '
        'complex rectangles and sectors; discrete sets / function lists; every SquareMatrices '
        'combination of dimension 2-5 x symmetry x traceless x determinant x complex (constructor '
        'accept/reject recorded); vectors/matrices/tensors up to 4 axes x norm ranges x triangular; '
        'identity multiples over every scalar sampler; random functions over input_dim 1-4 x '
        'output_dim 1-3 x num_terms x center x amplitude x complex at random points. Non-trivial = a '
        'draw checked against at least one non-type constraint; distinct by (class, config, draw index).')
ASSUMPTIONS = ['R7: norm ranges checked where the documentation says norm is used (not for determinant=1, '
               'IdentityMatrixMultiples); symmetric/trace/triangular <= 1e-12*scale; det 1 within 1e-9; '
               'det 0 as sigma_min/sigma_max <= 1e-9',
               'integer endpoints: N draws with miss probability < 1e-30 on a correct sampler',
               'Orthogonal/UnitaryMatrices draws need scipy: constructor only']

SYMS = [None, 'diagonal', 'symmetric', 'antisymmetric', 'hermitian', 'antihermitian']


def gates(tier):
    return {'draws_checked': 8000, 'square_matrix_configs_accepted': 200, 'square_matrix_draws': 800,
            'random_function_evals': 5000, 'integer_endpoint_configs': 10, 'array_draws': 1500,
            'scalar_draws': 2000}


def is_real_number(v):
    return isinstance(v, (int, float, np.integer, np.floating)) and not isinstance(v, bool)


def in_range(v, lo, hi, tol=1e-12):
    lo, hi = min(lo, hi), max(lo, hi)
    span = max(1.0, abs(lo), abs(hi))
    return lo - tol * span <= v <= hi + tol * span


def draw(ctx, sampler, key, wit):
    out = lib.call(ctx, sampler.gen_sample)
    ctx.ev()
    ctx.count('draws_checked')
    if not out.returned:
        ctx.violation('C12:%s:cannot_sample' % key, 'gen_sample() raised %r' % (out.exc,) if out.kind == 'exc'
                      else 'gen_sample() did not terminate', wit)
        return None
    return out.value


# ----------------------------------------------------------------------------- scalars
def scalar_member(kind, cfg, v):
    """Return None if v is a member, else a problem string."""
    if kind == 'RealInterval':
        if not is_real_number(v):
            return 'not a real number: %r' % (v,)
        if not in_range(v, cfg[0], cfg[1]):
            return '%r outside [%r, %r]' % (v, min(cfg), max(cfg))
    elif kind == 'IntegerRange':
        if not isinstance(v, (int, np.integer)) or isinstance(v, bool):
            return 'not an integer: %r (%s)' % (v, type(v).__name__)
        if not min(cfg) <= v <= max(cfg):
            return '%r outside [%r, %r]' % (v, min(cfg), max(cfg))
    elif kind == 'ComplexRectangle':
        re_, im_ = cfg
        z = complex(v)
        if not in_range(z.real, re_[0], re_[1]) or not in_range(z.imag, im_[0], im_[1]):
            return '%r outside the rectangle re=%r im=%r' % (v, re_, im_)
    elif kind == 'ComplexSector':
        mod, arg = cfg
        z = complex(v)
        if not in_range(abs(z), mod[0], mod[1], 1e-9):
            return '|%r| = %r outside %r' % (v, abs(z), mod)
        if abs(z) > 1e-12:
            lo, hi = min(arg), max(arg)
            th = math.atan2(z.imag, z.real)
            if hi - lo < 2 * math.pi - 1e-9:
                k = math.floor((th - lo) / (2 * math.pi))
                cand = [th - 2 * math.pi * (k + d) for d in (-1, 0, 1)]
                if not any(lo - 1e-9 <= c <= hi + 1e-9 for c in cand):
                    return 'arg(%r) = %r not in %r (mod 2 pi)' % (v, th, arg)
    return None


def run_scalars(ctx):
    from mitxgraders import RealInterval, IntegerRange, ComplexRectangle, ComplexSector, DiscreteSet
    from mitxgraders.helpers.calc import MathArray
    rng = ctx.rng
    ndraw = ctx.pick(25, 1000)
    intervals = [[1, 5], [5, 1], [-3, -1], [-1, -3], [2, 2], [0, 1e-9], [-1e6, 1e6], [0.5, 0.75], [-2.5, 4], [0, 0]]
    # one-point intervals: the only member is the point itself, exactly (no rounding tolerance applies to a single point)
    intervals += [[x, x] for x in (3.14, 2.718281828, -1.3, 0.1, 1e-7, 123456.789, 1 / 3.)]
    intervals += [[x, x] for x in (round(rng.uniform(-10, 10), rng.randint(1, 9)) for _ in range(ctx.pick(6, 40)))]
    for i, iv in enumerate(intervals):
        for form in ('list', 'kwargs'):
            s = RealInterval(iv) if form == 'list' else RealInterval(start=iv[0], stop=iv[1])
            for d in range(ndraw):
                v = draw(ctx, s, 'RealInterval', {'config': iv})
                ctx.count('scalar_draws')
                if v is None:
                    break
                p = scalar_member('RealInterval', iv, v)
                if p is None and iv[0] == iv[1]:
                    ctx.count('degenerate_interval_draws')
                    if v != iv[0]:
                        p = 'the one-point interval [%r, %r] gave %r' % (iv[0], iv[1], v)
                if p:
                    ctx.violation('C12:RealInterval:' + ('degenerate' if iv[0] == iv[1] else 'reversed' if iv[0] > iv[1] else 'range'), p, {'config': iv})
                ctx.nontrivial(['RealInterval', iv, form, d, ctx.shard])
    int_ranges = [[1, 5], [5, 1], [-2, 2], [0, 1], [3, 3], [-4, -2], [-2, -4], [0, 6], [10, 12]]
    for iv in int_ranges:
        s = IntegerRange(iv)
        seen = set()
        k = abs(iv[1] - iv[0]) + 1
        n = 75 * k + 50
        for d in range(n):
            v = draw(ctx, s, 'IntegerRange', {'config': iv})
            ctx.count('scalar_draws')
            if v is None:
                break
            p = scalar_member('IntegerRange', iv, v)
            if p:
                ctx.violation('C12:IntegerRange:' + ('reversed' if iv[0] > iv[1] else 'range'), p, {'config': iv})
            else:
                seen.add(int(v))
        ctx.count('integer_endpoint_configs')
        for end in (min(iv), max(iv)):
            if end not in seen:
                ctx.violation('C12:IntegerRange:endpoint_never_attained',
                              'endpoint %d of %r not drawn in %d draws (values seen: %r)' % (end, iv, n, sorted(seen)),
                              {'config': iv})
        ctx.nontrivial(['IntegerRange', iv, ctx.shard])
    rects = [([1, 3], [1, 3]), ([3, 1], [-2, -1]), ([0, 0], [0, 1]), ([-5, 5], [2, 2]), ([-1, 0], [4, 1]),
             ([3.14, 3.14], [-1.3, -1.3]), ([2.718281828, 2.718281828], [0, 1]), ([0, 1], [-1.3, -1.3])]
    for re_, im_ in rects:
        s = ComplexRectangle(re=re_, im=im_)
        for d in range(ndraw):
            v = draw(ctx, s, 'ComplexRectangle', {'re': re_, 'im': im_})
            ctx.count('scalar_draws')
            if v is None:
                break
            p = scalar_member('ComplexRectangle', (re_, im_), v)
            if p is None and ((re_[0] == re_[1] and complex(v).real != re_[0]) or (im_[0] == im_[1] and complex(v).imag != im_[0])):
                p = '%r is off the degenerate side of the rectangle re=%r im=%r' % (v, re_, im_)
            if p:
                ctx.violation('C12:ComplexRectangle', p, {'re': re_, 'im': im_})
            ctx.nontrivial(['ComplexRectangle', re_, im_, d, ctx.shard])
    sectors = [([1, 3], [0, math.pi / 2]), ([0, 1], [-math.pi, math.pi]), ([2, 2], [math.pi / 4, math.pi / 4]),
               ([3, 1], [math.pi, math.pi / 2]), ([1, 2], [3, 3.5]), ([0.5, 1], [-0.1, 0.1]), ([1, 2], [5.5, 7]),
               ([1, 1.5], [-4, -3.5])]
    for mod, arg in sectors:
        s = ComplexSector(modulus=mod, argument=arg)
        for d in range(ndraw):
            v = draw(ctx, s, 'ComplexSector', {'modulus': mod, 'argument': arg})
            ctx.count('scalar_draws')
            if v is None:
                break
            p = scalar_member('ComplexSector', (mod, arg), v)
            if p:
                ctx.violation('C12:ComplexSector:' + ('modulus' if p.startswith('|') else 'argument'), p,
                              {'modulus': mod, 'argument': arg})
            ctx.nontrivial(['ComplexSector', mod, arg, d, ctx.shard])
    # discrete sets
    arr1, arr2 = MathArray([[1, 0], [0, 1]]), MathArray([1, 2, 3])
    for members in [(1, 3, 5, 7, 9), (3.5,), (1j, 2, -0.5), (arr1, arr2), (1, arr1), (0, 0.0),
                    (2 ** 53 + 1, 10 ** 30 + 1, 3 ** 40 + 2), (2 ** 63 + 5,), (True, 2), (np.int64(7), np.float32(0.5))]:      # (large ints, numpy scalars: members as listed)
        s = DiscreteSet(members if len(members) > 1 else members[0])
        seen = set()
        for d in range(ndraw * 2):
            v = draw(ctx, s, 'DiscreteSet', {'members': members})
            ctx.count('scalar_draws')
            if v is None:
                break
            idx = [k for k, m in enumerate(members) if (v is m) or (not isinstance(m, np.ndarray) and not isinstance(v, np.ndarray) and v == m)]
            if not idx:
                ctx.violation('C12:DiscreteSet:not_a_member', 'drew %r, members %r' % (v, members), {'members': members})
            else:
                seen.add(idx[0])
        ctx.nontrivial(['DiscreteSet', members, ctx.shard])


# ----------------------------------------------------------------------------- arrays
def check_array(ctx, key, v, shape, cplx, norm, wit, check_norm=True):
    from mitxgraders.helpers.calc import MathArray
    if not isinstance(v, MathArray):
        ctx.violation('C12:%s:type' % key, 'draw is %s, not MathArray' % type(v).__name__, wit)
        return False
    if v.shape != tuple(shape):
        ctx.violation('C12:%s:shape' % key, 'shape %r, declared %r' % (v.shape, tuple(shape)), wit)
        return False
    if np.any(np.isnan(v)) or np.any(np.isinf(v)):
        ctx.violation('C12:%s:nonfinite' % key, 'draw contains nan/inf', wit)
        return False
    if cplx is False and np.iscomplexobj(v):
        ctx.violation('C12:%s:realness' % key, 'real sampler drew complex entries', wit)
    if cplx is True and not np.iscomplexobj(v):
        ctx.violation('C12:%s:complexness' % key, 'complex sampler drew a real array', wit)
    if check_norm:
        nrm = float(np.sqrt(np.sum(np.abs(np.asarray(v)) ** 2)))
        if not in_range(nrm, norm[0], norm[1], 1e-9):
            ctx.violation('C12:%s:norm' % key, 'Frobenius norm %r outside %r' % (nrm, norm), wit)
    return True


def run_arrays(ctx):
    from mitxgraders import (RealVectors, ComplexVectors, RealMatrices, ComplexMatrices, RealTensors,
                             ComplexTensors, IdentityMatrixMultiples, RealInterval, IntegerRange,
                             ComplexRectangle, ComplexSector)
    rng = ctx.rng
    ndraw = ctx.pick(8, 400)
    norms = [[1, 5], [1, 1], [5, 10], [0.001, 0.002], [10, 5], [100, 100]]
    for shape in (1, 2, 3, 4, 7, [3], (5,)):
        for norm in norms:
            for cls, cplx in ((RealVectors, False), (ComplexVectors, True)):
                s = cls(shape=shape, norm=norm)
                n = shape if isinstance(shape, int) else shape[0]
                for d in range(ndraw):
                    v = draw(ctx, s, cls.__name__, {'shape': shape, 'norm': norm})
                    ctx.count('array_draws')
                    if v is None:
                        break
                    check_array(ctx, cls.__name__, v, (n,), cplx, norm, {'shape': shape, 'norm': norm, 'draw': v})
                    ctx.nontrivial([cls.__name__, shape, norm, d, ctx.shard])
    for shape in ([2, 2], [3, 2], [1, 4], [4, 1], [3, 3], (2, 5), [1, 1]):
        for norm in norms[:4]:
            for tri in (None, 'upper', 'lower'):
                for cls, cplx in ((RealMatrices, False), (ComplexMatrices, True)):
                    s = cls(shape=shape, norm=norm, triangular=tri)
                    for d in range(ndraw):
                        wit = {'shape': shape, 'norm': norm, 'triangular': tri}
                        v = draw(ctx, s, cls.__name__, wit)
                        ctx.count('array_draws')
                        if v is None:
                            break
                        if check_array(ctx, cls.__name__, v, shape, cplx, norm, dict(wit, draw=v)):
                            a = np.asarray(v)
                            if tri == 'upper' and np.any(np.tril(a, -1) != 0):
                                ctx.violation('C12:%s:triangular_upper' % cls.__name__, 'entries below the diagonal are not zero', dict(wit, draw=v))
                            if tri == 'lower' and np.any(np.triu(a, 1) != 0):
                                ctx.violation('C12:%s:triangular_lower' % cls.__name__, 'entries above the diagonal are not zero', dict(wit, draw=v))
                        ctx.nontrivial([cls.__name__, shape, norm, tri, d, ctx.shard])
    for shape in ([2, 2, 2], [3, 2, 4], [1, 2, 3], [2, 2, 2, 2], (2, 1, 3, 2)):
        for norm in norms[:3]:
            for cls, cplx in ((RealTensors, False), (ComplexTensors, True)):
                s = cls(shape=shape, norm=norm)
                for d in range(ndraw):
                    v = draw(ctx, s, cls.__name__, {'shape': shape, 'norm': norm})
                    ctx.count('array_draws')
                    if v is None:
                        break
                    check_array(ctx, cls.__name__, v, shape, cplx, norm, {'shape': shape, 'norm': norm, 'draw': v})
                    ctx.nontrivial([cls.__name__, shape, norm, d, ctx.shard])
    # identity multiples over every scalar sampler
    scalar_samplers = [
        ('RealInterval', [2, 3], lambda: RealInterval([2, 3])), ('RealInterval', [-3, -2], lambda: [-3, -2]),
        ('IntegerRange', [1, 3], lambda: IntegerRange([1, 3])),
        ('ComplexRectangle', ([1, 2], [3, 4]), lambda: ComplexRectangle(re=[1, 2], im=[3, 4])),
        ('ComplexSector', ([1, 2], [0, 1]), lambda: ComplexSector(modulus=[1, 2], argument=[0, 1])),
        ('RealInterval', [1, 5], None),
    ]
    for dim in (2, 3, 5):
        for kind, cfg, make in scalar_samplers:
            s = IdentityMatrixMultiples(dimension=dim, sampler=make()) if make else IdentityMatrixMultiples(dimension=dim)
            for d in range(ndraw):
                wit = {'dimension': dim, 'sampler': kind, 'sampler_config': cfg}
                v = draw(ctx, s, 'IdentityMatrixMultiples', wit)
                ctx.count('array_draws')
                if v is None:
                    break
                if not check_array(ctx, 'IdentityMatrixMultiples', v, (dim, dim), None, None, dict(wit, draw=v), check_norm=False):
                    continue
                a = np.asarray(v)
                c = a[0, 0]
                if np.any(a - c * np.eye(dim) != 0):
                    ctx.violation('C12:IdentityMatrixMultiples:not_a_multiple', 'draw is not c*I', dict(wit, draw=v))
                else:
                    c_ = c.item() if hasattr(c, 'item') else c
                    if kind == 'IntegerRange':
                        c_ = int(round(c_.real if isinstance(c_, complex) else c_)) if abs(c_ - round(abs(c_))) < 1e-12 else c_
                        p = None if (isinstance(c_, int) and min(cfg) <= c_ <= max(cfg)) else '%r not an integer in %r' % (c, cfg)
                    elif kind == 'RealInterval':
                        p = scalar_member(kind, cfg, float(np.real(c_))) if abs(np.imag(c_)) == 0 else 'complex scalar %r' % (c_,)
                    else:
                        p = scalar_member(kind, cfg, c_)
                    if p:
                        ctx.violation('C12:IdentityMatrixMultiples:scalar_outside_sampler', p, dict(wit, draw=v))
                ctx.nontrivial(['IMM', dim, kind, cfg, d, ctx.shard])


def run_square(ctx):
    from mitxgraders import SquareMatrices
    from mitxgraders.exceptions import ConfigError
    ndraw = ctx.pick(5, 400)
    combos = list(itertools.product((2, 3, 4, 5), SYMS, (False, True), (None, 0, 1), (False, True)))
    accepted = 0
    for idx, (dim, sym, traceless, det, cplx) in enumerate(combos):
        if not ctx.mine(idx):
            continue
        cfg = {'dimension': dim, 'symmetry': sym, 'traceless': traceless, 'determinant': det, 'complex': cplx}
        norm = [2, 3] if idx % 2 else [1, 5]
        try:
            s = SquareMatrices(norm=norm, **cfg)
        except ConfigError:
            ctx.count('square_matrix_configs_rejected')
            continue
        except Exception as exc:  # noqa
            ctx.violation('C12:SquareMatrices:constructor_foreign_error', repr(exc), {'config': cfg})
            continue
        accepted += 1
        ctx.count('square_matrix_configs_accepted')
        eff_complex = cplx or sym in ('hermitian', 'antihermitian')
        mech = '%s/%s/det=%s/%s' % (sym, 'traceless' if traceless else 'tr', det, 'c' if eff_complex else 'r')
        for d in range(ndraw):
            ctx.seed_case('sq', idx, d)
            wit = {'config': cfg, 'norm': norm}
            v = draw(ctx, s, 'SquareMatrices:' + mech, wit)
            ctx.count('square_matrix_draws')
            if v is None:
                break
            if not check_array(ctx, 'SquareMatrices', v, (dim, dim), eff_complex, norm, dict(wit, draw=v),
                               check_norm=(det != 1)):
                continue
            a = np.asarray(v)
            scale = max(1e-300, float(np.max(np.abs(a))))
            tol = 1e-12 * scale * dim
            wit = dict(wit, draw=v)
            if sym == 'diagonal' and np.any(a - np.diag(np.diag(a)) != 0):
                ctx.violation('C12:SquareMatrices:diagonal', 'off-diagonal entries not zero', wit)
            if sym == 'symmetric' and np.max(np.abs(a - a.T)) > tol:
                ctx.violation('C12:SquareMatrices:symmetric', 'A != A^T (max dev %r)' % np.max(np.abs(a - a.T)), wit)
            if sym == 'antisymmetric' and np.max(np.abs(a + a.T)) > tol:
                ctx.violation('C12:SquareMatrices:antisymmetric', 'A != -A^T', wit)
            if sym == 'hermitian' and np.max(np.abs(a - np.conj(a.T))) > tol:
                ctx.violation('C12:SquareMatrices:hermitian', 'A != A^H', wit)
            if sym == 'antihermitian' and np.max(np.abs(a + np.conj(a.T))) > tol:
                ctx.violation('C12:SquareMatrices:antihermitian', 'A != -A^H', wit)
            if traceless and abs(np.trace(a)) > tol * 10:
                ctx.violation('C12:SquareMatrices:traceless:' + mech, 'trace %r' % np.trace(a), wit)
            if det == 1:
                dv = np.linalg.det(a)
                if abs(dv - 1) > 1e-9:
                    ctx.violation('C12:SquareMatrices:det1:' + mech, 'determinant %r' % (dv,), wit)
            if det == 0:
                sv = np.linalg.svd(a, compute_uv=False)
                if sv[-1] / sv[0] > 1e-9:
                    ctx.violation('C12:SquareMatrices:det0:' + mech, 'sigma_min/sigma_max = %r' % (sv[-1] / sv[0]), wit)
            ctx.nontrivial(['SQ', cfg, d])
        if det is not None:
            # samplers that work by trial and error: the same object keeps delivering, draw after draw
            for d in range(ctx.pick(400, 2000)):
                ctx.seed_case('sq-long', idx, d)
                v = draw(ctx, s, 'SquareMatrices:long_lived:' + mech, {'config': cfg, 'norm': norm, 'draw_number': ndraw + d})
                ctx.count('square_matrix_draws')
                ctx.count('long_lived_sampler_draws')
                if v is None:
                    break
    ctx.subspace('SquareMatrices dimension 2-5 x symmetry x traceless x determinant x complex', len(combos) // ctx.nshards, True)
    return accepted


def run_functions(ctx):
    from mitxgraders import RandomFunction, SpecificFunctions
    from mitxgraders.helpers.calc import MathArray
    rng = ctx.rng
    nfun = ctx.pick(3, 30)
    npts = ctx.pick(12, 150)
    combos = list(itertools.product((1, 2, 3, 4), (1, 2, 3), (1, 3, 5), (0, -2.5, 7), (10, 1, 0.5), (False, True)))
    for idx, (ind, outd, terms, center, amp, cplx) in enumerate(combos):
        if not ctx.mine(idx):
            continue
        cfg = {'input_dim': ind, 'output_dim': outd, 'num_terms': terms, 'center': center, 'amplitude': amp, 'complex': cplx}
        s = RandomFunction(**cfg)
        drawn = []
        for k in range(nfun):
            ctx.seed_case('rf', idx, k)
            f = draw(ctx, s, 'RandomFunction', {'config': cfg})
            if f is None:
                break
            probe = [rng.uniform(-6, 6) for _ in range(ind)]
            try:
                drawn.append((f, probe, f(*probe)))
            except Exception:  # noqa
                pass
            # functions drawn earlier from this sampler must not change when more are drawn
            for f0, p0, v0 in drawn[:-1]:
                v1 = f0(*p0)
                ctx.count('earlier_function_rechecks')
                if not np.array_equal(np.asarray(v0), np.asarray(v1)):
                    ctx.violation('C12:RandomFunction:changed_by_later_draw',
                                  'a function drawn earlier returned %r, after another draw from the same sampler %r' % (v0, v1),
                                  {'config': cfg, 'point': p0})
                    break
            for d in range(npts):
                big = d % 6 == 0
                args = [rng.uniform(-1e4, 1e4) if big else rng.uniform(-6, 6) for _ in range(ind)]
                out = lib.call(ctx, f, *args)
                ctx.ev()
                ctx.count('random_function_evals')
                wit = {'config': cfg, 'point': args, 'outcome': out.brief()}
                if not out.returned:
                    ctx.violation('C12:RandomFunction:raises', 'f%r raised %r' % (tuple(args), out.exc), wit)
                    continue
                v = out.value
                again = f(*args)
                if not np.array_equal(np.asarray(v), np.asarray(again)):
                    ctx.violation('C12:RandomFunction:not_fixed', 'f(x) != f(x) on re-evaluation', wit)
                if outd == 1:
                    if isinstance(v, np.ndarray) and v.ndim > 0:
                        ctx.violation('C12:RandomFunction:output_shape', 'output_dim=1 but value %r' % (v,), wit)
                        continue
                    comps = [complex(v)]
                else:
                    if not isinstance(v, MathArray) or v.shape != (outd,):
                        ctx.violation('C12:RandomFunction:output_shape', 'output_dim=%d but value %r (%s)' % (outd, v, type(v).__name__), wit)
                        continue
                    comps = [complex(x) for x in v]
                if not cplx and any(abs(c.imag) > 0 for c in comps):
                    ctx.violation('C12:RandomFunction:realness', 'real function returned %r' % (v,), wit)
                dev = max(abs(c - center) for c in comps)
                if dev > amp * (1 + 1e-12):
                    ctx.violation('C12:RandomFunction:bound:input_dim%s' % ('>1' if ind > 1 else '=1'),
                                  '|f(x) - center| = %r > amplitude %r' % (dev, amp), wit)
                ctx.nontrivial(['RF', cfg, k, d])
            # wrong arity must be refused
            for wrong in (ind - 1, ind + 1):
                if wrong < 0:
                    continue
                out = lib.call(ctx, f, *([1.0] * wrong))
                ctx.ev()
                if out.returned:
                    ctx.violation('C12:RandomFunction:arity', 'called with %d arguments (input_dim %d) returned %r' % (wrong, ind, out.value),
                                  {'config': cfg})
    ctx.subspace('RandomFunction option grid', len(combos) // ctx.nshards, True)
    # specific functions
    fl = [math.sin, math.cos, lambda x: x * x]
    for members in (fl, fl[:1], fl[2]):
        s = SpecificFunctions(members)
        mem = members if isinstance(members, list) else [members]
        for d in range(30):
            f = draw(ctx, s, 'SpecificFunctions', {})
            if f is not None and not any(f is m for m in mem):
                ctx.violation('C12:SpecificFunctions:not_a_member', 'drew %r' % (f,), {})


def run_constructor_only(ctx):
    from mitxgraders import OrthogonalMatrices, UnitaryMatrices
    for cls in (OrthogonalMatrices, UnitaryMatrices):
        for dim in (2, 3):
            for unitdet in (False, True):
                try:
                    s = cls(dimension=dim, unitdet=unitdet)
                    ctx.count('scipy_samplers_constructed')
                    assert s.config['shape'] == (dim, dim)
                except Exception as exc:  # noqa
                    ctx.violation('C12:%s:constructor' % cls.__name__, repr(exc), {})
    ctx.note('not_exercised', 'OrthogonalMatrices / UnitaryMatrices draws (need scipy): constructor only')


def run(ctx):
    run_scalars(ctx)
    run_arrays(ctx)
    run_square(ctx)
    run_functions(ctx)
    lib.repo_tests_under_monitor(ctx, 'C12', ['draw'])
    if ctx.shard == 0:
        run_constructor_only(ctx)
        ctx.sample({'sampler': "SquareMatrices(dimension=3, symmetry='hermitian', traceless=True, determinant=None)",
                    'checked': ['MathArray (3,3)', 'complex', 'A == A^H', 'trace == 0', '1 <= ||A||_F <= 5']})
        ctx.sample({'sampler': 'IntegerRange([5, 1])', 'checked': ['integer', '1 <= v <= 5', 'both 1 and 5 drawn within 425 draws']})
