"""
C11 -- a grader's verdict depends only on its configuration and the current call.

Monitors:
 (1) reference state machine + fresh-instance differential: every event sequence (expect x input)
     up to length 3 (4 thorough) for each item-grader class, with and without configured answers,
     debug on/off; step n must equal what a freshly constructed grader returns when given the
     expect the state machine says is in force;
 (2) fingerprints: the author's configuration objects before/after construction and calls, the
     scopes handed to MathExpression.eval (tap), sibling instances, and -- at quiescent points --
     every process-wide setting the library owns (numpy error state, negative-power switch,
     default tables, class-level defaults, registered defaults, shared parser scratch sets);
 (3) random longer histories over graders that share subgraders, matrix graders with negative
     powers disabled interleaved with raising calls, registered defaults, shared config dicts.
"""
import itertools

import numpy as np

from vf import lib
from vf import state

RULE = ('exhaustive: all event sequences of length <=3 (quick) / <=4 (thorough) over (expect in {absent, valid1, '
        'valid2, unusable}) x (input in {right1, right2, wrong, malformed}) for String, Numerical, Formula, '
        'Matrix, SingleList and Interval graders x answers configured or not x debug on/off; random: sequences '
        'up to length 64 over graders sharing subgrader instances, debug subgraders inside lists, MatrixGraders '
        'with negative_powers False/True incl. raising calls, registered class defaults, one config dict reused '
        'for several graders. Non-trivial = sequence with at least one raising call, an expect change, or a '
        'shared instance; distinct by (class, configured, debug, sequence).')
ASSUMPTIONS = ['"successfully supplied" expect := one with which a fresh grader can grade its own right answer',
               'with debug=True only ok/grade and the structure of the log (one log, the current input, the current '
               'inferred expect) are compared, not sampled values']

SCOPE = {'evals': 0, 'bad': []}


def gates(tier):
    return {'sequence_steps': 60000, 'sequences': 20000, 'raising_steps': 8000, 'steps_using_remembered_expect': 3000,
            'process_state_checks': 1200, 'config_fingerprint_checks': 400, 'scope_taps': 5000,
            'shared_instance_steps': 1500, 'negpow_steps': 200, 'own_text_checks': 300, 'soup_steps': 2500, 'registered_default_cases': 20, 'debug_log_checks': 5000, 'configured_grader_given_expect_text': 1500}


# ----------------------------------------------------------------------------- specs
def specs():
    import mitxgraders as M
    return {
        'StringGrader': dict(make=lambda **k: M.StringGrader(**k), answers='cat', expects=['cat', 'dog'], unusable=None,
                             inputs=['cat', 'dog', 'bird', '']),
        'NumericalGrader': dict(make=lambda **k: M.NumericalGrader(**k), answers='5', expects=['5', '7'], unusable=None,
                                inputs=['5', '7', '9', '1/0']),
        'FormulaGrader': dict(make=lambda **k: M.FormulaGrader(variables=['x'], **k), answers='x^2', expects=['x^2', '2*x'], unusable=None,
                              inputs=['x*x', 'x+x', 'x^3', 'x+']),
        'MatrixGrader': dict(make=lambda **k: M.MatrixGrader(variables=['x'], **k), answers='[x,1]', expects=['[x,1]', '[1,x]'], unusable=None,
                             inputs=['[x,1]', '[1,x]', '[0,0]', '[x,']),
        'SingleListGrader': dict(make=lambda **k: M.SingleListGrader(subgrader=M.StringGrader(), **k), answers=['a', 'b'],
                                 expects=['a,b', 'c,d'], unusable='a,,b', inputs=['a,b', 'd,c', 'x,y', 'a,,b']),
        'NestedSingleListGrader': dict(make=lambda **k: M.SingleListGrader(subgrader=M.SingleListGrader(subgrader=M.StringGrader(), delimiter=','),
                                                                           delimiter=';', **k),
                                       answers=[['a', 'b'], ['c', 'd']], expects=['a,b;c,d', 'e,f;g,h'], unusable='a,b;;c',
                                       inputs=['c,d;b,a', 'e,f;g,h', 'x,y;z,w', 'a,b;;c']),
        'IntervalGrader': dict(make=lambda **k: M.IntervalGrader(**k), answers='[1,2]', expects=['[1,2]', '(3,4)'], unusable='[1,2,3]',
                               inputs=['[1,2]', '(3,4)', '[5,6]', '[1']),
        # multi-input graders: answers are always configured, expect plays no role
        'ListGrader': dict(make=lambda **k: M.ListGrader(subgraders=M.FormulaGrader(variables=['x']), ordered=True, **k),
                           answers=['x', 'x^2'], expects=[], unusable=None, always_configured=True,
                           inputs=[['x', 'x*x'], ['x', '2'], ['x+', 'x'], ['x', 'x', 'x'], ['1', 'x^2']]),
        'SumGrader': dict(make=lambda **k: M.SumGrader(**k), answers={'lower': '1', 'upper': '3', 'summand': 'n', 'summation_variable': 'n'},
                          expects=[], unusable=None, always_configured=True,
                          inputs=[['1', '3', 'n', 'n'], ['1', '3', 'n^2', 'n'], ['1', '', 'n', 'n'], ['1', '3', 'n+', 'n'], ['1', '3', 'n']]),
    }


DEBUG_SECTIONS = ('MITx Grading Library Version', 'Student Response', 'Evaluation Data for Sample', 'Comparison Data for All', 'Comparer Function',
                  'Variables:', 'Functions available')      # ('Expect value inferred' legitimately differs: the reference is handed the expect again)


def norm(out, debug, inp=None, expect_in_force=None, inferring=False):
    """Comparable form of an outcome."""
    if out.kind == 'exc':
        return ('exc', type(out.exc).__name__, str(out.exc))
    if out.kind == 'hang':
        return ('hang',)
    r = out.value
    if not debug:
        return ('ok', repr(r))
    # with debug on the text holds sampled values; its STRUCTURE (which sections, how many of each) is the same for the same call
    text = r.get('overall_message', '') if 'input_list' in r else r.get('msg', '')
    shape = tuple(text.count(h) for h in DEBUG_SECTIONS)
    if 'input_list' in r:
        return ('ok', tuple((e['ok'], e['grade_decimal']) for e in r['input_list']), shape)
    return ('ok', r['ok'], r['grade_decimal'], shape)


def check_debug_log(ctx, key, out, inp, expect, configured, wit):
    """With debug=True the log of call n must describe call n only."""
    if not out.returned:
        return
    msg = out.value['overall_message'] if 'input_list' in out.value else out.value['msg']
    ctx.count('debug_log_checks')
    if isinstance(inp, list):
        nlogs = msg.count('MITx Grading Library Version')
        shown = 'Student Responses:<br/>\n' + '<br/>\n'.join(inp)
        if nlogs != 1:
            ctx.violation(key + ':debug_log_count', 'message contains %d debug logs' % nlogs, wit)
        elif (shown + '<br/>') not in msg and (shown + '</pre>') not in msg:
            ctx.violation(key + ':debug_log_stale_input', 'the log does not show the current inputs %r: %r' % (inp, msg[:300]), wit)
        return
    nlogs = msg.count('MITx Grading Library Version')
    if nlogs != 1:
        ctx.violation(key + ':debug_log_count', 'message contains %d debug logs' % nlogs, wit)
        return
    if 'Student Response:<br/>\n' + inp.replace('\n', '<br/>\n') + '<br/>\n' not in msg + '<br/>\n' and \
            ('Student Response:<br/>\n' + inp) not in msg:
        ctx.violation(key + ':debug_log_stale_input', 'the log does not show the current input %r: %r' % (inp, msg[:300]), wit)
        return
    ninf = msg.count('Expect value inferred to be')
    want = 1 if (expect is not None and not configured) else 0
    if ninf != want:
        ctx.violation(key + ':debug_log_inferred_lines', 'log has %d "inferred" lines, expected %d' % (ninf, want), wit)


def run_sequences(ctx):
    S = specs()
    maxlen = ctx.pick(3, 4)
    fresh_cache = {}
    base_state = state.process_state()
    idx = 0
    for cname, sp in S.items():
        exps = [None] + sp['expects'] + ([sp['unusable']] if sp['unusable'] else [])
        events = [(e, s) for e in exps for s in sp['inputs']]
        for configured, debug in itertools.product((False, True), (False, True)):
            if sp.get('always_configured') and not configured:
                continue
            extra = {'debug': debug}
            if configured:
                extra['answers'] = sp['answers']

            def fresh(e, s):
                k = (cname, configured, debug, e, repr(s))
                if k not in fresh_cache:
                    g = sp['make'](**dict(extra))
                    out = lib.call(ctx, g, e, list(s) if isinstance(s, list) else s)
                    fresh_cache[k] = (norm(out, debug), out)
                return fresh_cache[k]

            def usable(e):
                # a fresh answer-less grader can grade the matching right input with it
                k = ('usable', cname, e)
                if k not in fresh_cache:
                    g = sp['make']()
                    right = sp['inputs'][sp['expects'].index(e)] if e in sp['expects'] else sp['inputs'][0]
                    out = lib.call(ctx, g, e, right)
                    fresh_cache[k] = out.returned
                return fresh_cache[k]
            for length in range(1, maxlen + 1):
                n = 0
                for seq in itertools.product(range(len(events)), repeat=length):
                    idx += 1
                    if not ctx.mine(idx):
                        continue
                    n += 1
                    g = sp['make'](**dict(extra))
                    remembered = None
                    raised = changed = False
                    for pos, ei in enumerate(seq):
                        e, s = events[ei]
                        if isinstance(s, list):
                            s = list(s)
                        out = lib.call(ctx, g, e, s)
                        ctx.ev()
                        ctx.count('sequence_steps')
                        if configured:
                            want, wout = fresh(None, s)
                            in_force = None
                        else:
                            if e is not None and usable(e):
                                if remembered is not None and remembered != e:
                                    changed = True
                                remembered = e
                                in_force = e
                            elif e is not None:
                                in_force = e              # unusable: the call must fail as a fresh grader does
                            else:
                                in_force = remembered
                                if remembered is not None:
                                    ctx.count('steps_using_remembered_expect')
                            want, wout = fresh(in_force, s)
                        got = norm(out, debug)
                        if got[0] == 'exc':
                            raised = True
                            ctx.count('raising_steps')
                        wit = {'class': cname, 'answers_configured': configured, 'debug': debug,
                               'sequence': [events[i] for i in seq], 'step': pos, 'expect_in_force': in_force,
                               'got': got, 'fresh_grader_gives': want}
                        if got != want:
                            prev = events[seq[pos - 1]] if pos else None
                            after = 'first_call' if prev is None else ('after_unusable_expect' if (prev[0] is not None and not configured and not usable(prev[0]))
                                                                        else 'after_raising_call' if norm(lib.call(ctx, sp['make'](**dict(extra)), prev[0], prev[1]), debug)[0] == 'exc'
                                                                        else 'after_normal_call')
                            ctx.violation('C11:history:%s:%s%s' % (cname, after, ':debug' if debug else ''),
                                          'step %d returned %r; a fresh grader with expect %r gives %r' % (pos, got, in_force, want), wit)
                            break
                        if debug and out.returned:
                            check_debug_log(ctx, 'C11:history:%s' % cname, out, s, e, configured, wit)
                    ctx.count('sequences')
                    if raised or changed:
                        ctx.nontrivial([cname, configured, debug, seq])
                    if n % 50 == 0:
                        now = state.process_state()
                        ctx.count('process_state_checks')
                        d = state.diff_state(base_state, now)
                        if d:
                            ctx.violation('C11:process_state:' + d[0], 'process-wide state changed: %r' % d,
                                          {'class': cname, 'sequence': [events[i] for i in seq]})
                            base_state = now
                ctx.subspace('%s configured=%s debug=%s: event sequences of length %d over %d events' % (cname, configured, debug, length, len(events)),
                             n, True)


# ----------------------------------------------------------------------------- configured answers: expect is ignored
EXPECT_TEXTS = ['', ' ', '?', 'n/a', 'cat', 'see the solution', '[1,2,3]', '[1,2', 'a,,b', '(((', '1/0', 'x+', u'\u221e', '{1,2}', ';', ',',
                '0', 'None', '[', 'x' * 300, '<b>answer</b>', '%s {0} {x}', '\n', '(1,2)', 'a,b;;c']


def run_configured_ignores_expect(ctx):
    """edX hands the problem's expect="..." text (often display text) to every call; a grader whose answers are configured grades as
    if it had not been given, whatever that text is and whatever was handed on earlier calls."""
    rng = ctx.rng
    S = specs()
    for cname, sp in sorted(S.items()):
        for debug in (False, True):
            ref = {}
            for s in sp['inputs']:
                out = lib.call(ctx, sp['make'](answers=sp['answers'], debug=debug), None, list(s) if isinstance(s, list) else s)
                ref[repr(s)] = norm(out, debug)
            g = sp['make'](answers=sp['answers'], debug=debug)
            texts = list(EXPECT_TEXTS)
            rng.shuffle(texts)
            for e in texts:
                for s in sp['inputs']:
                    out = lib.call(ctx, g if rng.random() < 0.7 else sp['make'](answers=sp['answers'], debug=debug), e, list(s) if isinstance(s, list) else s)
                    ctx.ev()
                    ctx.count('configured_grader_given_expect_text')
                    got = norm(out, debug)
                    if got != ref[repr(s)]:
                        ctx.violation('C11:configured_answers:%s:expect_text_changes_outcome' % cname,
                                      'expect %r, input %r: %r; without expect: %r' % (e[:40], s, got, ref[repr(s)]),
                                      {'class': cname, 'debug': debug, 'expect': e[:80], 'input': s})


# ----------------------------------------------------------------------------- scope tap
def scope_fp(d):
    items = []
    for k, v in d.items():
        if isinstance(v, np.ndarray):
            items.append((k, v.shape, v.tobytes()))
        elif isinstance(v, (int, float, complex)):
            items.append((k, repr(v)))
        else:
            items.append((k, id(v)))
    return hash(tuple(sorted(items, key=lambda t: t[0])))


def install_scope_tap():
    from mitxgraders.helpers.calc import expressions as E
    if getattr(E.MathExpression.eval, '_vf', False):
        return
    orig = E.MathExpression.eval

    def tapped(self, variables, functions, suffixes, allow_inf=False):
        SCOPE['evals'] += 1
        check = SCOPE['evals'] % 3 == 0
        if check:
            before = (scope_fp(variables), scope_fp(functions), scope_fp(suffixes))
        try:
            return orig(self, variables, functions, suffixes, allow_inf=allow_inf)
        finally:
            if check:
                after = (scope_fp(variables), scope_fp(functions), scope_fp(suffixes))
                if after != before and len(SCOPE['bad']) < 5:
                    which = [n for n, a, b in zip(('variables', 'functions', 'suffixes'), before, after) if a != b]
                    SCOPE['bad'].append((self.expression, which))
    tapped._vf = True
    E.MathExpression.eval = tapped


# ----------------------------------------------------------------------------- configs / shared state
def run_configs(ctx):
    """Author configuration objects are never altered by construction or grading."""
    import mitxgraders as M
    rng = ctx.rng

    def cases():
        sub = M.StringGrader()
        fsub = M.FormulaGrader(variables=['x'])
        yield 'StringGrader', M.StringGrader, {'answers': ({'expect': 'cat', 'msg': 'm'}, 'dog'), 'wrong_msg': 'w'}, ['cat', 'x']
        yield 'FormulaGrader', M.FormulaGrader, {'answers': {'expect': 'x^2', 'grade_decimal': 0.5}, 'variables': ['x', 'y'],
                                                 'sample_from': {'x': [1, 2], 'y': (1, 2, 3)}, 'user_constants': {'c': 2.0, 'e': None},
                                                 'user_functions': {'f': [np.sin, np.cos]}, 'blacklist': ['tan'], 'suppress_warnings': True}, ['x*x', 'x+']
        yield 'NumericalGrader', M.NumericalGrader, {'answers': ('1', {'expect': '2', 'msg': 'two'})}, ['1', '3']
        yield 'MatrixGrader', M.MatrixGrader, {'answers': '[1,2]', 'answer_shape_mismatch': {'is_raised': False}, 'entry_partial_credit': 0.5}, ['[1,2]', '[1,3]']
        yield 'SingleListGrader', M.SingleListGrader, {'answers': (['a', 'b'], {'expect': ['c', ('d', 'e')], 'msg': 'm'}), 'subgrader': sub}, ['a,b', 'c']
        yield 'IntervalGrader', M.IntervalGrader, {'answers': {'expect': ['[', '1', '2', ')'], 'msg': 'm'}}, ['[1,2)', '(1,2)']
        yield 'IntervalGrader(str)', M.IntervalGrader, {'answers': '[1,2)'}, ['[1,2)', '(1,2)']
        yield 'ListGrader', M.ListGrader, {'answers': [('a', 'A'), 'b'], 'subgraders': sub}, [['a', 'b'], ['b', 'x']]
        yield 'ListGrader(formula)', M.ListGrader, {'answers': (['x', 'x^2'], ['1', '2']), 'subgraders': fsub, 'ordered': True}, [['x', 'x*x'], ['1', '3']]
        yield 'ListGrader(grouped)', M.ListGrader, {'answers': [['a', 'b'], ['c', 'd']], 'subgraders': M.ListGrader(subgraders=sub),
                                                    'grouping': [1, 1, 2, 2]}, [['a', 'b', 'c', 'd'], ['d', 'c', 'b', 'a']]
        yield 'SumGrader', M.SumGrader, {'answers': {'lower': '1', 'upper': '3', 'summand': 'n', 'summation_variable': 'n'},
                                         'input_positions': {'summand': 1}}, ['n', 'n^2']
        yield 'SumGrader(deleted constants)', M.SumGrader, {'answers': {'lower': '1', 'upper': '3', 'summand': 'n', 'summation_variable': 'n'},
                                                            'user_constants': {'pi': None, 'infty': None, 'c': 2.0}}, [['1', '3', 'n', 'n'], ['1', '3', 'pi', 'n']]
        yield 'MatrixGrader(deleted constants)', M.MatrixGrader, {'answers': 'x', 'variables': ['x'], 'user_constants': {'e': None, 'i': None}}, ['x', 'e']
        def offdiag(x):
            np.fill_diagonal(x, 0)          # an author function that works in place on what it is given
            return x
        yield 'MatrixGrader(in-place author function)', M.MatrixGrader, {
            'answers': 'offdiag(A)+0*x', 'variables': ['x'], 'user_constants': {'A': M.MathArray([[1., 2.], [3., 4.]])},
            'user_functions': {'offdiag': offdiag}, 'max_array_dim': 2}, ['offdiag(A)', 'A-[[1,0],[0,4]]', 'A', 'offdiag(A)+offdiag(A)-offdiag(A)']
        yield 'NumericalGrader(infinities)', M.NumericalGrader, {'answers': 'infty', 'allow_inf': True}, ['infty', '-infty', '5', 'arccosh(0.5)']
        yield 'IntervalGrader(infinite endpoint)', M.IntervalGrader, {'answers': '[0, infty)'}, ['[0, infty)', '[0, 5)', '(-infty, 0]']
        yield 'FormulaGrader(metric suffixes)', M.FormulaGrader, {'answers': '2k+x', 'variables': ['x'], 'metric_suffixes': True}, ['x+2000', '2k', '3%']
        yield 'SumGrader(metric suffixes)', M.SumGrader, {'answers': {'lower': '1', 'upper': '3', 'summand': 'n', 'summation_variable': 'n'},
                                                           'metric_suffixes': True}, [['1', '3', 'n', 'n'], ['1', '0.003k', 'n', 'n']]
        yield 'FormulaGrader(numbered)', M.FormulaGrader, {'answers': 'a_{1}+x', 'variables': ['x'], 'numbered_vars': ['a'], 'sample_from': {'x': [1, 2]}},\
            ['x+a_{1}', 'a_{2}+x', 'a_{3}']
        yield 'LinearComparer', M.LinearComparer, {'equals': 1.0, 'proportional': 0.3}, None
        yield 'RealInterval', M.RealInterval, {'start': 3, 'stop': 1}, None
        yield 'RealInterval(list)', M.RealInterval, [3, 1], None
        yield 'SquareMatrices', M.SquareMatrices, {'dimension': 3, 'symmetry': 'hermitian'}, None
        yield 'RandomFunction', M.RandomFunction, {'input_dim': 2}, None
    for rep in range(ctx.pick(2, 20)):
        for name, cls, cfg, inputs in cases():
            before = state.fp(cfg)
            st0 = state.process_state()
            try:
                a = cls(cfg)
                b = cls(cfg)     # the same dictionary reused for a second object
            except Exception as exc:  # noqa
                ctx.violation('C11:config:construction_failed:' + name, repr(exc), {'class': name})
                continue
            ctx.ev()
            ctx.count('config_fingerprint_checks')
            wit = {'class': name, 'config': cfg}
            if state.fp(cfg) != before:
                ctx.violation('C11:config:author_object_modified_by_construction:' + name,
                              'the configuration object passed to %s was altered' % name, dict(wit, after=cfg))
                before = state.fp(cfg)
            if not (a == b):
                ctx.violation('C11:config:reused_dict_gives_unequal_objects:' + name, 'Cls(cfg) != Cls(cfg)', wit)
            if inputs:
                cb = state.fp(b.config)
                ca = state.fp({k: v for k, v in a.config.items() if k not in ('answers', 'expect')})
                for inp in inputs * 2:
                    lib.call(ctx, a, None, list(inp) if isinstance(inp, list) else inp)
                    ctx.ev()
                if state.fp(cfg) != before:
                    ctx.violation('C11:config:author_object_modified_by_grading:' + name, 'altered by grader calls', wit)
                if state.fp({k: v for k, v in a.config.items() if k not in ('answers', 'expect')}) != ca:
                    changed = [k for k in a.config if k not in ('answers', 'expect') and state.fp(a.config[k]) != state.fp(cls(cfg).config[k])]
                    ctx.violation('C11:config:own_options_modified_by_grading:' + name,
                                  'options %r of the grader changed while it graded' % (changed,), wit)
                if state.fp(b.config) != cb:
                    ctx.violation('C11:config:sibling_instance_modified:' + name,
                                  'calls on one grader changed another grader built from the same dictionary', wit)
                # a itself must still grade like a fresh one
                for inp in inputs:
                    inp = list(inp) if isinstance(inp, list) else inp
                    o1, o2 = lib.call(ctx, a, None, inp), lib.call(ctx, cls(cfg), None, inp)
                    if norm(o1, False) != norm(o2, False):
                        ctx.violation('C11:config:used_instance_differs_from_fresh:' + name, '%r vs %r' % (o1.brief(), o2.brief()), wit)
            d = state.diff_state(st0, state.process_state())
            ctx.count('process_state_checks')
            if d:
                ctx.violation('C11:process_state:' + d[0], 'constructing/using %s changed %r' % (name, d), wit)
            ctx.nontrivial(['cfg', name, rep])


def run_shared(ctx):
    import mitxgraders as M
    rng = ctx.rng
    for i in range(ctx.n(480, 8000)):
        mode = i % 9
        own_texts = None
        if mode == 8:
            # an author comparer that hands back the SAME dictionary object every time; answers worth less than 1; a wrong_msg
            def build():
                verdicts = {'half': {'grade_decimal': 0.5, 'msg': 'half way'}, 'no': {'grade_decimal': 0, 'msg': ''}}

                def comp(params, student, utils, verdicts=verdicts):
                    if utils.within_tolerance(params[0], student):
                        return True
                    return verdicts['half'] if utils.within_tolerance(2 * params[0], student) else verdicts['no']
                ans = {'expect': {'comparer': comp, 'comparer_params': ['x^2']}, 'grade_decimal': 0.8}
                return {'F': M.FormulaGrader(answers=ans, variables=['x'], wrong_msg='W-F'),
                        'N': M.NumericalGrader(answers={'expect': {'comparer': comp, 'comparer_params': ['4']}, 'grade_decimal': 0.5}, wrong_msg='W-N'),
                        'M': M.MatrixGrader(answers=ans, variables=['x'])}
            calls = {'F': [(None, 'x^2'), (None, '2*x^2'), (None, 'x^3'), (None, 'x*x*2')], 'N': [(None, '4'), (None, '8'), (None, '5')],
                     'M': [(None, 'x^2'), (None, '2*x^2'), (None, '7')]}
        elif mode == 7:
            # the same TEXT graded by graders whose variables have different dimensions (the parser caches by text)
            tagv = 'q%d' % (3000 + i)

            def build():
                kw = dict(answers='[a, %s]' % tagv, variables=['a', tagv])
                return {'MV': M.MatrixGrader(max_array_dim=2, sample_from={'a': M.RealVectors(shape=2), tagv: M.RealVectors(shape=2)}, **kw),
                        'MS': M.MatrixGrader(sample_from={'a': [1, 2], tagv: [1, 2]}, **kw),
                        'MS2': M.MatrixGrader(max_array_dim=1, sample_from={'a': [2, 3], tagv: [1, 2]}, **kw)}
            calls = {'MV': [(None, '[a, %s]' % tagv), (None, '[a , %s]' % tagv), (None, '[%s, a]' % tagv)],
                     'MS': [(None, '[a, %s]' % tagv), (None, '[a,%s] + [0, 0]' % tagv), (None, '[%s, a]' % tagv)],
                     'MS2': [(None, '[a, %s]' % tagv), (None, '2*[a, %s]/2' % tagv)]}
        elif mode == 6:
            # silent refusals (explain_* = None) of several StringGraders with different wrong_msg texts: beside the
            # differential, ABSOLUTE law -- a grader only ever speaks with its own texts (a fault that pollutes every
            # StringGrader of the process would pollute the freshly built reference too)
            def build():
                s1 = M.StringGrader(answers='cat', validation_pattern='[a-z]+', explain_validation=None, wrong_msg='W-ONE')
                s2 = M.StringGrader(answers='dog', validation_pattern='[a-z]+', explain_validation=None, wrong_msg='')
                s3 = M.StringGrader(accept_any=True, min_length=3, explain_minimums=None, wrong_msg='W-THREE')
                return {'S1': s1, 'S2': s2, 'S3': s3,
                        'L': M.ListGrader(answers=['cat', 'dog'], subgraders=[M.StringGrader(validation_pattern='[a-z]+', explain_validation=None, wrong_msg='W-L1'),
                                                                              M.StringGrader(validation_pattern='[a-z]+', explain_validation=None, wrong_msg='W-L2')],
                                          ordered=True)}
            calls = {'S1': [(None, 'cat'), (None, 'c4t'), (None, 'dog'), (None, '!!')], 'S2': [(None, 'dog'), (None, 'd0g'), (None, 'cat')],
                     'S3': [(None, 'ab'), (None, 'abc'), (None, '')], 'L': [(None, ['cat', 'dog']), (None, ['c4t', 'd0g']), (None, ['dog', 'cat'])]}
            own_texts = {'S1': {'', 'W-ONE'}, 'S2': {''}, 'S3': {'', 'W-THREE'}, 'L': {'', 'W-L1', 'W-L2'}}
        elif mode == 5:
            # one comparer OBJECT (author configuration) shared by several graders: what it was asked before is irrelevant
            def build():
                comp = M.LinearComparer(equals=1.0, proportional=0.5, offset=0.4, linear=0.3)
                kw = dict(variables=['x'], samples=4)
                return {'F1': M.FormulaGrader(answers={'comparer': comp, 'comparer_params': ['x^2']}, **kw),
                        'F0': M.FormulaGrader(answers={'comparer': comp, 'comparer_params': ['0*x']}, **kw),
                        'M': M.MatrixGrader(answers={'comparer': comp, 'comparer_params': ['[x, x^2]']}, **kw)}
            calls = {'F1': [(None, 'x^2'), (None, '2*x^2'), (None, '0'), (None, '3*x^2+1'), (None, 'x^2+5'), (None, 'x'), (None, '0*x')],
                     'F0': [(None, '0'), (None, 'x'), (None, '0*x^2')],
                     'M': [(None, '[x,x^2]'), (None, '2*[x,x^2]'), (None, '[0,0]'), (None, '3*[x,x^2]+[1,1]')]}
        elif mode == 4:
            # a formula grader used for sibling answers of a list, standalone, and in a second list: names introduced
            # for one call (sibling_N, numbered instances) are not there for the next
            def build():
                fsub = M.FormulaGrader(variables=['x'], numbered_vars=['a'])
                return {'fsub': fsub, 'L': M.ListGrader(answers=['x+1', 'sibling_1^2'], subgraders=fsub, ordered=True),
                        'L3': M.ListGrader(answers=['2*x', 'x', 'sibling_2+sibling_1'], subgraders=fsub, ordered=True)}
            calls = {'fsub': [('x+1', 'sibling_1'), ('x+1', 'x+1+0*sibling_1'), ('x+a_{1}', 'a_{1}+x'), ('x', 'x+0*sibling_2'), ('x^2', 'x*x')],
                     'L': [(None, ['x+1', '(x+1)^2']), (None, ['x+2', '(x+2)^2']), (None, ['x+1', 'sibling_1^2']), (None, ['a_{4}', 'a_{4}^2'])],
                     'L3': [(None, ['2*x', 'x', '3*x']), (None, ['x', 'x', '2*x']), (None, ['2*x', 'x+0*sibling_1', '3*x'])]}
        elif mode == 0:
            # one StringGrader instance shared by two lists, a SingleListGrader and used standalone
            def build():
                sub = M.StringGrader()
                return {'sub': sub, 'L1': M.ListGrader(answers=['a', 'b'], subgraders=sub),
                        'L2': M.ListGrader(answers=['c', 'd'], subgraders=sub, ordered=True),
                        'S1': M.SingleListGrader(answers=['a', 'b'], subgrader=sub)}
            calls = {'sub': [('cat', 'cat'), ('dog', 'cat'), (None, 'cat'), ('cat', 5)], 'L1': [(None, ['a', 'b']), (None, ['b', 'x']), (None, 'a')],
                     'L2': [(None, ['c', 'd']), (None, ['d', 'c'])], 'S1': [(None, 'a,b'), (None, 'b'), (None, 'a,,b')]}
        elif mode == 1:
            # debug subgraders inside lists
            def build():
                fsub = M.FormulaGrader(variables=['x'], debug=True)
                return {'fsub': fsub, 'S': M.SingleListGrader(answers=['x', 'x^2'], subgrader=fsub),
                        'L': M.ListGrader(answers=['x', 'x^2'], subgraders=fsub, ordered=True),
                        'Sd': M.SingleListGrader(answers=['x', 'x^2'], subgrader=fsub, debug=True),
                        'Ld': M.ListGrader(answers=['x', 'x^2'], subgraders=fsub, ordered=True, debug=True)}
            calls = {'fsub': [('x', 'x'), ('x', 'x+')], 'S': [(None, 'x, x*x'), (None, 'x^2,x'), (None, 'x')], 'L': [(None, ['x', 'x*x']), (None, ['1', '2'])],
                     'Sd': [(None, 'x,x^2'), (None, 'x,y')], 'Ld': [(None, ['x', 'x*x']), (None, ['x', '2']), (None, ['x+', 'x'])]}
        elif mode == 2:
            # negative powers switched per grader, interleaved with raising calls
            def build():
                return {'off': M.MatrixGrader(answers='A', variables=['A'], sample_from={'A': M.RealMatrices()}, negative_powers=False, max_array_dim=2),
                        'on': M.MatrixGrader(answers='A', variables=['A'], sample_from={'A': M.RealMatrices()}, negative_powers=True, max_array_dim=2),
                        'sup': M.MatrixGrader(answers='A', variables=['A'], sample_from={'A': M.RealMatrices()}, negative_powers=False,
                                              suppress_matrix_messages=True, max_array_dim=2)}
            calls = {'off': [(None, 'A'), (None, 'A^-1*A*A'), (None, 'A^0.5'), (None, 'A+'), (None, 'A+1')],
                     'on': [(None, 'A^-1*A*A'), (None, '(A^-1)^-1'), (None, 'A^0.5')], 'sup': [(None, 'A^-1*A*A'), (None, 'A*[1,2,3]')]}
            ctx.count('negpow_steps', 0)
        else:
            # the parser is shared by all graders: malformed input to one must not change another's verdict
            tagc = '%d' % (1000 + i)      # strings unique to this case: the shared parser has never seen them

            def build():
                return {'F': M.FormulaGrader(answers='sin(x)+2k', variables=['x'], metric_suffixes=True),
                        'N': M.NumericalGrader(answers='2'), 'G': M.FormulaGrader(answers='y^2', variables=['y']),
                        'B': M.FormulaGrader(answers='n^2+' + tagc, variables=['n'], blacklist=['abs', 'floor']),
                        'S': M.SumGrader(answers={'lower': '1', 'upper': '4', 'summand': 'n^2+' + tagc, 'summation_variable': 'n'})}
            calls = {'F': [(None, 'sin(x)+2000'), (None, 'zork(x)+ * 2k'), (None, 'sin(x+'), (None, 'sin(x)+2k+0')],
                     'N': [(None, '2'), (None, '1+1'), (None, 'sin(')], 'G': [(None, 'y*y'), (None, 'y^2 + * 3'), (None, 'y*y+0')],
                     'B': [(None, 'n^2+' + tagc), (None, tagc + '+n^2'), (None, 'n*n+' + tagc)],
                     'S': [(None, ['abs(0-1)', 'floor(4.5)', 'n^2+' + tagc, 'n']), (None, ['1', '4', tagc + '+n^2', 'n']),
                           (None, ['abs(1)', 'floor(4.5)', 'n*n+' + tagc, 'n'])]}
            # (references for this mode are computed on a brand-new parser object, see below: the shared parser never
            # sees a string through the reference call, so what the history left in it is all that can differ)
        objs = build()
        length = rng.randint(4, 64 if not ctx.quick else 24)
        seq = []
        for pos in range(length):
            name = rng.choice(list(objs))
            e, s = rng.choice(calls[name])
            s_ = list(s) if isinstance(s, list) else s
            ctx.seed_case('shared', i, pos)
            out = lib.call(ctx, objs[name], e, s_)
            # reference: the same call on a freshly built world, except that expect inference state of `sub`
            # legitimately persists: replay the sub-only history on the fresh object first
            fresh = build()
            if name in ('sub', 'fsub'):
                last_e = None
                for (pn, pe, ps) in seq:
                    if pn == name and pe is not None:
                        last_e = pe
                e_eff = e if e is not None else last_e
            else:
                e_eff = e
            ctx.seed_case('shared', i, pos)
            if mode in (3, 7):
                from mitxgraders.helpers.calc import expressions as E_
                shared_parser = E_.PARSER
                E_.PARSER = E_.MathParser()
                try:
                    ref = lib.call(ctx, fresh[name], e_eff, s_)
                finally:
                    E_.PARSER = shared_parser
            else:
                ref = lib.call(ctx, fresh[name], e_eff, s_)
            ctx.ev()
            ctx.count('shared_instance_steps')
            if mode == 2:
                ctx.count('negpow_steps')
            seq.append((name, e, s))
            if own_texts is not None and out.returned:
                msgs_ = [en['msg'] for en in out.value['input_list']] if 'input_list' in out.value else [out.value['msg']]
                ctx.count('own_text_checks')
                if any(m_ not in own_texts[name] for m_ in msgs_):
                    ctx.violation('C11:shared:message_of_another_grader:' + name, 'messages %r, this grader only has %r' % (msgs_, sorted(own_texts[name])),
                                  {'history': seq[-10:]})
                    break
            dbg = bool(getattr(objs[name], 'config', {}).get('debug')) or mode == 1
            if norm(out, dbg) != norm(ref, dbg):
                key = ['shared_subgrader', 'debug_subgrader', 'negative_powers', 'shared_parser', 'per_call_variables', 'shared_comparer', 'silent_refusals', 'same_text_other_dimensions', 'persistent_comparer_verdicts'][mode]
                ctx.violation('C11:shared:%s:%s' % (key, name), 'step %d (%s, expect %r, input %r) gave %r; on freshly built graders it gives %r'
                              % (pos, name, e, s, norm(out, dbg), norm(ref, dbg)), {'history': seq[-10:], 'mode': key})
                break
            from mitxgraders.helpers.calc import MathArray
            if MathArray._negative_powers is not True:
                ctx.violation('C11:process_state:MathArray._negative_powers', 'flag is %r after %s(%r)' % (MathArray._negative_powers, name, s),
                              {'history': seq[-10:]})
                MathArray._negative_powers = True
        ctx.nontrivial(['shared', mode, [(n, e, repr(s)) for n, e, s in seq]])


def run_registered_defaults(ctx):
    import mitxgraders as M
    for rep in range(ctx.pick(2, 10)):
        from mitxgraders.baseclasses import AbstractGrader
        for cls, defaults, explicit, probe in (
                (M.StringGrader, {'case_sensitive': False}, {'answers': 'cat', 'wrong_msg': 'EXPLICIT'}, ('Dog', 'DOG')),
                (M.FormulaGrader, {'tolerance': '1%'}, {'answers': 'x', 'variables': ['x'], 'wrong_msg': 'EXPLICIT'}, ('1', '1.005')),
                (AbstractGrader, {'attempt_based_credit_msg': False}, {'answers': 'cat'}, ('cat', 'cat'))):
            st0 = state.process_state()
            try:
                cls.register_defaults(dict(defaults))
                st1 = state.process_state()
                tgt = M.StringGrader if cls not in (M.StringGrader, M.FormulaGrader) else cls
                a = tgt(**explicit)
                st2 = state.process_state()
                ctx.count('registered_default_cases')
                ctx.ev()
                d = state.diff_state(st1, st2)
                if d:
                    ctx.violation('C11:registered_defaults:changed_by_construction', 'constructing a grader changed %r' % d,
                                  {'class': cls.__name__, 'defaults': defaults, 'explicit': explicit})
                b = tgt()     # no answers: must infer from expect, and must not have inherited a's explicit options
                out = lib.call(ctx, b, probe[0], probe[1])
                if b.config.get('wrong_msg') == 'EXPLICIT' or b.config['answers']  != () and not b.inferring_answers:
                    ctx.violation('C11:registered_defaults:leak_between_instances', 'a later grader inherited %r' % (b.config.get('wrong_msg'),),
                                  {'class': cls.__name__})
                if not out.returned or out.value['ok'] is not True:
                    ctx.violation('C11:registered_defaults:not_applied', 'registered default %r had no effect: %r' % (defaults, out.brief()),
                                  {'class': cls.__name__})
            finally:
                cls.clear_registered_defaults()
            d = state.diff_state(st0, state.process_state())
            if d:
                ctx.violation('C11:registered_defaults:not_cleared', 'after clear_registered_defaults: %r differ' % d, {'class': cls.__name__})
            c = (M.StringGrader if cls not in (M.StringGrader, M.FormulaGrader) else cls)()
            out = lib.call(ctx, c, probe[0], probe[1])
            if cls in (M.StringGrader, M.FormulaGrader) and (not out.returned or out.value['ok'] is not False):
                ctx.violation('C11:registered_defaults:persist_after_clear', 'default still in force: %r' % (out.brief(),), {'class': cls.__name__})


def run_registered_shared_dict(ctx):
    """One dictionary of course-wide defaults registered on several classes, then more defaults registered on one of them:
    the other classes keep what was registered for them, and the author's dictionary is left as written."""
    import mitxgraders as M
    rng = ctx.rng
    classes = [(M.StringGrader, {'answers': 'cat'}), (M.FormulaGrader, {'answers': 'x', 'variables': ['x']}),
               (M.NumericalGrader, {'answers': '5'}), (M.SingleListGrader, {'answers': ['a', 'b'], 'subgrader': M.StringGrader()}),
               (M.IntervalGrader, {'answers': '[1,2]'})]
    for rep in range(ctx.pick(6, 40)):
        picked = rng.sample(classes, rng.randint(2, 4))
        # (sibling classes only: defaults registered for a class also reach its subclasses by design)
        if any(issubclass(a[0], b[0]) for a in picked for b in picked if a is not b):
            continue
        shared = {'wrong_msg': 'Try again'}
        later = rng.choice([{'wrong_msg': 'Other'}, {'debug': True}, {'wrong_msg': 'Other', 'debug': True}])
        k = rng.randrange(len(picked))
        try:
            for cls, _ in picked:
                cls.register_defaults(shared)
            picked[k][0].register_defaults(dict(later))
            ctx.count('registered_default_cases')
            ctx.count('shared_defaults_dict_cases')
            ctx.ev()
            wit = {'registered_on': [c.__name__ for c, _ in picked], 'shared': {'wrong_msg': 'Try again'}, 'then_on': picked[k][0].__name__, 'later': later}
            if shared != {'wrong_msg': 'Try again'}:
                ctx.violation('C11:registered_defaults:author_dict_modified', 'the registered dictionary now reads %r' % (shared,), wit)
            for j, (cls, cfg) in enumerate(picked):
                try:
                    g = cls(**cfg)
                except Exception as exc:  # noqa
                    ctx.violation('C11:registered_defaults:leak_between_classes', 'constructing %s raised %r' % (cls.__name__, exc), wit)
                    continue
                want_msg = later.get('wrong_msg', 'Try again') if j == k else 'Try again'
                want_debug = later.get('debug', False) if j == k else False
                if g.config['wrong_msg'] != want_msg or g.config['debug'] != want_debug:
                    ctx.violation('C11:registered_defaults:leak_between_classes',
                                  '%s has wrong_msg=%r debug=%r, registered for it: %r / %r' % (cls.__name__, g.config['wrong_msg'], g.config['debug'], want_msg, want_debug), wit)
        finally:
            for cls, _ in picked:
                cls.clear_registered_defaults()


def run_soup(ctx):
    """
    Mixed histories without a script: several graders of any kind (the configuration grammar of gen_graders, incl.
    configurations with several options drawn together), called in random order with right, wrong and hostile
    inputs.  Every call is compared with the same call on a freshly made twin, and the process-wide settings are
    compared with their fingerprint at the start every few steps.
    """
    from vf import gen_graders as GG
    rng = ctx.rng
    F = GG.Factory(rng)
    for i in range(ctx.n(240, 4000)):
        made = []
        for _ in range(rng.randint(3, 6)):
            case = F.any() if rng.random() < 0.7 else F.random_config()
            try:
                made.append((case, case['make'](debug=False)))
            except Exception:  # noqa  (a refused option combination)
                continue
        if len(made) < 2:
            continue
        st0 = state.process_state()
        hist = []
        for step in range(rng.randint(8, 30) if i % 12 else rng.randint(120, 200)):      # (now and then: a long life)
            case, g = rng.choice(made)
            pool = case['good'] + case['partial'] + case['wrong']
            inp = rng.choice(pool)
            if rng.random() < 0.25:
                junk = rng.choice(GG.GARBAGE)
                inp = junk if not isinstance(inp, list) else [junk if rng.random() < 0.5 else x for x in inp]
            inp_ = list(inp) if isinstance(inp, list) else inp
            expect = 'cat' if case.get('needs_expect') else None
            ctx.seed_case('soup', i, step)
            lib.reset_scripted(g)
            out = lib.call(ctx, g, expect, inp_)
            try:
                twin = case['make'](debug=False)
            except Exception:  # noqa
                continue
            ctx.seed_case('soup', i, step)
            ref = lib.call(ctx, twin, expect, list(inp) if isinstance(inp, list) else inp)
            ctx.ev()
            ctx.count('soup_steps')
            hist.append((case['cls'], repr(inp)[:60]))

            def brief(o):
                if o.kind != 'ok':
                    return (o.kind, type(o.exc).__name__ if o.exc is not None else None)
                r = o.value
                if 'input_list' in r:
                    return ('ok', tuple((e['ok'], round(e['grade_decimal'], 9)) for e in r['input_list']))
                return ('ok', r['ok'], round(r['grade_decimal'], 9))
            if brief(out) != brief(ref):
                ctx.violation('C11:soup:used_instance_differs_from_fresh:' + case['cls'],
                              'step %d: %r on the used grader, %r on a freshly made one' % (step, out.brief(), ref.brief()),
                              {'grader': case['desc'], 'input': inp, 'history': hist[-8:]})
                break
            if step % 5 == 4:
                d = state.diff_state(st0, state.process_state())
                ctx.count('process_state_checks')
                if d:
                    ctx.violation('C11:process_state:' + d[0], 'after %r: %r changed' % (hist[-5:], d), {'history': hist[-8:]})
                    break
        ctx.nontrivial(['soup', i, ctx.shard])


def run(ctx):
    install_scope_tap()
    run_sequences(ctx)
    if ctx.shard % 4 == 1:
        run_configured_ignores_expect(ctx)
    run_configs(ctx)
    run_shared(ctx)
    run_soup(ctx)
    if ctx.shard % 4 == 0:
        run_registered_defaults(ctx)
        run_registered_shared_dict(ctx)
    ctx.count('scope_taps', SCOPE['evals'] // 3)
    for expr, which in SCOPE['bad'][:3]:
        ctx.violation('C11:scope_modified:' + '+'.join(which), 'evaluating %r changed the %s handed to the evaluator' % (expr[:80], which),
                      {'expression': expr[:200]})
    if ctx.shard == 0:
        ctx.sample({'class': 'SingleListGrader', 'answers_configured': False, 'sequence': [['a,b', 'a,b'], ['a,,b', 'a,b'], [None, 'a,b']],
                    'expected': 'step 3 grades against a,b (the last successfully supplied expect)'})
