"""
C09 -- restrictions on student formulas cannot be bypassed to obtain credit.

Oracle: twin differential.  A "cheating" formula = correct answer (+) a neutral term that uses a
restricted construct.  The unrestricted twin grader (same configuration minus the restriction;
instructor variable declared as an ordinary one) must credit it (otherwise the case is vacuous
and only counted); the restricted grader must refuse it with the required student-facing error
class and never return a grade.  Controls: honest answers still earn credit, the author's own
answers may use every restricted construct.
"""
from vf import lib

RULE = ('restrictions {blacklist, whitelist, whitelist=[None], required_functions, forbidden_strings (space '
        'variants), instructor_vars, sibling variables, numbered variables, metric suffixes off, undeclared / '
        'primed / case-variant names} x neutral-term constructions {+0*R, +R*0, +R-R, *(R)^0, ^(1+0*R), inside a '
        'function argument, inside an array entry} x full- and partial-credit alternatives x Formula, '
        'Numerical, Matrix, Sum graders and ordered lists with sibling references. Non-trivial = a cheat '
        'that the unrestricted twin credits; distinct by (grader, restriction, construction, formula).')
ASSUMPTIONS = ['R6: forbidden strings are compared ignoring U+0020 only (a tab-separated variant is an observation)',
               'a cheat the twin does not credit is vacuous and not judged']

NEUTRAL = ['({A})+0*({R})', '({A})+({R})*0', '({A})+({R})-({R})', '({A})*(2+({R}))^0', '({A})^(1+0*({R}))',
           '({A})+0*(1+({R}))^2', '({A})*exp(0*({R}))', '0*({R})+({A})', '(({A})+({R}))-({R})']
NEUTRAL_ARRAY = ['({A})+0*([{R},1]*[1,0])', '({A})+[0*({R}),0]*[1,1]']


def gates(tier):
    return {'cheats_twin_credited': 2500, 'cheats_refused': 2500, 'honest_controls': 400,
            'restriction:blacklist': 100, 'restriction:blacklist:user_override': 15, 'restriction:whitelist': 150, 'restriction:whitelist_none': 100,
            'restriction:required': 100, 'restriction:forbidden': 150, 'restriction:instructor_var': 150,
            'restriction:numbered': 100, 'restriction:removed_constant': 60, 'restriction:registered_defaults': 40, 'sibling_mixed_list_cases': 150, 'restriction:suffix': 80, 'restriction:name': 150,
            'restriction:sibling': 60, 'restriction:sibling_via_sampler': 60, 'aborted_parse_before_cheat': 30, 'restriction:sum_blacklist': 80, 'partial_credit_cheats': 200, 'restriction_combinations': 400, 'restricted_grader_as_subgrader': 300, 'resubmissions': 2000}


def credited(out):
    if not out.returned:
        return False
    if 'input_list' in out.value:
        return out.value['input_list'][0]['grade_decimal'] > 0      # (wrapped in a list: the first box holds the formula under test)
    return out.value['grade_decimal'] > 0


def wrapped(ctx, rng, answers, twin, restricted, formula):
    """The same two graders used as SUBGRADERS of a list: a restriction binds there exactly as it does stand-alone.
    Returns (twin', restricted', call) or None."""
    from mitxgraders import SingleListGrader, ListGrader
    if ';' in formula:
        return None
    kind = rng.choice(['singlelist', 'list_ordered', 'list_unordered'])
    ctx.count('restricted_grader_as_subgrader')
    if kind == 'singlelist':
        mk = lambda g: SingleListGrader(answers=[answers, '7'], subgrader=g, delimiter=';', ordered=True)
        return mk(twin), mk(restricted), (lambda g: lib.call(ctx, g, None, formula + ' ; 7'))
    mk = lambda g: ListGrader(answers=[answers, '7'], subgraders=g, ordered=(kind == 'list_ordered'))
    return mk(twin), mk(restricted), (lambda g: lib.call(ctx, g, None, [formula, '7']))


def judge_cheat(ctx, restriction, twin, restricted, formula, allowed_errors, wit, call=None):
    """twin must credit; restricted must raise one of allowed_errors."""
    call = call or (lambda g: lib.call(ctx, g, None, formula))
    t = call(twin)
    ctx.ev()
    if not credited(t):
        ctx.count('vacuous_cheats')
        if not t.returned and lib.err_family(t.exc).startswith('FOREIGN'):
            ctx.violation('C09:twin_foreign_error', repr(t.exc), wit)
        return
    ctx.count('cheats_twin_credited')
    ctx.count('restriction:' + restriction)
    if t.value.get('ok') == 'partial' or ('input_list' in t.value and t.value['input_list'][0]['ok'] == 'partial'):
        ctx.count('partial_credit_cheats')
    r = call(restricted)
    ctx.ev()
    wit = dict(wit, formula=formula, twin=t.brief(), restricted=r.brief())
    ctx.nontrivial([restriction, formula, wit.get('grader')])
    if r.returned:
        if credited(r):
            ctx.violation('C09:%s:bypass_credited' % restriction, 'cheat earned %r' % (r.value,), wit)
        else:
            ctx.violation('C09:%s:graded_wrong_instead_of_refused' % restriction,
                          'cheat was graded %r instead of being refused with an error' % (r.value,), wit)
        return
    name = type(r.exc).__name__
    if name not in allowed_errors:
        ctx.violation('C09:%s:wrong_error_class' % restriction,
                      'refused with %s(%s), expected one of %r' % (name, str(r.exc)[:120], allowed_errors), wit)
        return
    ctx.count('cheats_refused')
    # the same submission again, to the same grader object: refused again
    r2 = call(restricted)
    ctx.ev()
    ctx.count('resubmissions')
    if r2.returned or type(r2.exc).__name__ not in allowed_errors:
        ctx.violation('C09:%s:resubmission_not_refused' % restriction, 'submitted a second time: %r' % (r2.brief(),), dict(wit, second_outcome=r2.brief()))


def judge_honest(ctx, restriction, g, formula, wit, want_grade=None):
    out = lib.call(ctx, g, None, formula)
    ctx.ev()
    ctx.count('honest_controls')
    if not out.returned or out.value['grade_decimal'] <= 0 or (want_grade is not None and abs(out.value['grade_decimal'] - want_grade) > 1e-9):
        ctx.violation('C09:%s:honest_answer_refused' % restriction, 'honest answer %r: %r' % (formula, out.brief()),
                      dict(wit, formula=formula))


def build(cls_name, **cfg):
    from mitxgraders import FormulaGrader, NumericalGrader, MatrixGrader
    cls = {'FormulaGrader': FormulaGrader, 'NumericalGrader': NumericalGrader, 'MatrixGrader': MatrixGrader}[cls_name]
    if cls_name == 'NumericalGrader':
        cfg.pop('variables', None)
        cfg.pop('sample_from', None)
        cfg.pop('numbered_vars', None)
    return cls(**cfg)


def run_functions(ctx):
    rng = ctx.rng
    # answers chosen so that an honest equivalent without the restricted function exists
    for i in range(ctx.n(1600, 120000)):
        cls_name = rng.choice(['FormulaGrader', 'MatrixGrader', 'NumericalGrader'])
        numeric = cls_name == 'NumericalGrader'
        var = '2' if numeric else 'x'
        ans = rng.choice(['sin({v})^2', '1-cos({v})^2+0*sin({v})', 'exp({v})*sin({v})^2']).format(v=var)
        honest = {'sin': None, 'cos': None}
        full = {'expect': ans, 'grade_decimal': 1}
        part = {'expect': '2*(%s)' % ans, 'grade_decimal': 0.5, 'msg': 'half'}
        answers = (full, part)
        target = rng.choice([ans, '2*(%s)' % ans])
        kind = rng.choice(['blacklist', 'whitelist', 'whitelist_none'])
        common = dict(answers=answers, variables=['x'], user_functions={'uf': lambda t: t * 1.0}, user_constants={'kc': 2.5})
        if rng.random() < 0.4:
            common['forbidden_strings'] = rng.choice([['arcsin'], ['x*x*x*x'], ['sec', 'csc(']])
            ctx.count('restriction_combinations')
        override = False
        if kind == 'blacklist':
            bad = rng.choice(['sin', 'tan', 'sqrt', 'abs', 'arctan2'])
            override = bad in ('tan', 'sqrt', 'abs') and rng.random() < 0.4
            if override:
                # the author replaced the default by a function of the same name AND blacklisted it: still not permitted
                import numpy as _np
                repl = {'tan': _np.tan, 'sqrt': _np.lib.scimath.sqrt, 'abs': _np.abs}[bad]
                common = dict(common, user_functions=dict(common['user_functions'], **{bad: repl}), suppress_warnings=True)
            restricted = build(cls_name, blacklist=[bad] + rng.sample(['csc', 'floor'], rng.randint(0, 2)), **common)
        elif kind == 'whitelist':
            allowed = rng.sample(['cos', 'exp', 'sin', 'ln'], rng.randint(1, 3))
            bad = rng.choice([f for f in ['sin', 'tan', 'sqrt', 'abs', 'cos', 'exp', 'arctan2'] if f not in allowed])
            restricted = build(cls_name, whitelist=allowed, **common)
        else:
            bad = rng.choice(['sin', 'cos', 'exp', 'abs', 'sqrt'])
            restricted = build(cls_name, whitelist=[None], **common)
        twin = build(cls_name, **common)
        R = {'sin': 'sin(1)', 'tan': 'tan(0.3)', 'sqrt': 'sqrt(4)', 'abs': 'abs(0-3)', 'cos': 'cos(1)', 'exp': 'exp(0.5)',
             'arctan2': 'arctan2(1,2)'}[bad]
        if not numeric and rng.random() < 0.5:
            R = R.replace('1', 'x', 1) if bad in ('sin', 'cos') else R
        tpl = rng.choice(NEUTRAL + (NEUTRAL_ARRAY if cls_name == 'MatrixGrader' else []))
        # the author's own answer may use the function: only cheat with functions the *target* does not need
        # (the target itself may contain sin; when sin is the restricted function the bare target is a cheat too)
        formula = tpl.format(A=target, R=R)
        wit = {'grader': cls_name, 'restriction': kind, 'restricted_function': bad, 'answers': [ans, '2*(%s)' % ans],
               'blacklisted_name_overridden_by_user_function': override}
        w_ = wrapped(ctx, rng, answers, twin, restricted, formula) if (i % 4 == 3 and not numeric) else None
        if w_:
            judge_cheat(ctx, kind + (':user_override' if override else ''), w_[0], w_[1], formula, ('InvalidInput',), dict(wit, used_as='subgrader of a list'), call=w_[2])
        else:
            judge_cheat(ctx, kind + (':user_override' if override else ''), twin, restricted, formula, ('InvalidInput',), wit)
        # user functions and constants stay usable under every function restriction
        if i % 5 == 0:
            # an honest formula using only permitted things: numeric value of the answer via identities
            permitted = restricted.permitted_functions
            if 'cos' in permitted and 'sin' not in ans.replace('sin', '') and False:
                pass
            hon = '(%s)+0*uf(kc)' % target
            needs = [f for f in ('sin', 'cos', 'exp') if f + '(' in target]
            if all(f in permitted for f in needs):
                judge_honest(ctx, kind, restricted, hon, wit)


def run_required(ctx):
    rng = ctx.rng
    for i in range(ctx.n(640, 40000)):
        cls_name = rng.choice(['FormulaGrader', 'MatrixGrader', 'NumericalGrader'])
        var = '2' if cls_name == 'NumericalGrader' else 'x'
        req = rng.choice(['sin', 'cos', 'exp'])
        ans, equiv = {'sin': ('sin(2*{v})', '2*sin({v})*cos({v})'), 'cos': ('cos({v})^2', '1-sin({v})^2'),
                      'exp': ('exp(2*{v})', 'e^(2*{v})')}[req]
        ans, equiv = ans.format(v=var), equiv.format(v=var)
        answers = ({'expect': ans, 'grade_decimal': 1}, {'expect': '3*(%s)' % ans, 'grade_decimal': 0.4})
        # other restrictions configured beside the one under test (none of them is violated by the cheat)
        by = {}
        if rng.random() < 0.5:
            by['forbidden_strings'] = rng.choice([['arcsin'], ['x*x*x*x', 'tan ('], ['sec']])
        if rng.random() < 0.3:
            by['blacklist'] = ['arccos', 'floor']
        restricted = build(cls_name, answers=answers, variables=['x'], required_functions=[req], **by)
        twin = build(cls_name, answers=answers, variables=['x'], **by)
        # a correct formula that omits the required function
        if req == 'sin':
            cheat = '2*cos({v}-pi/2)*cos({v})'.format(v=var)
        elif req == 'cos':
            cheat = equiv
        else:
            cheat = equiv
        scale = rng.choice(['', '3*'])
        formula = '%s(%s)' % (scale, cheat)
        wit = {'grader': cls_name, 'restriction': 'required', 'required': req, 'answer': ans, 'other_restrictions_configured': by}
        if by:
            ctx.count('restriction_combinations')
        if i % 3 == 0:
            # history: a submission that does use the required function but whose parse is aborted (nesting too deep
            # for the parser), then a never-parsed cheat
            deep = '%s+%s1%s' % (ans, '(' * 400, ')' * 400)
            d = lib.call(ctx, restricted, None, deep)
            ctx.count('aborted_parse_before_cheat' if not d.returned else 'deep_submission_graded')
            formula = '%s+0*%d' % (formula, 1000 + i * ctx.nshards + ctx.shard)
            wit['history'] = 'deeply nested submission containing %s first (%s)' % (req, d.brief() if d.returned else type(d.exc).__name__)
        w_ = wrapped(ctx, rng, answers, twin, restricted, formula) if (i % 4 == 1 and cls_name != 'NumericalGrader') else None
        if w_:
            judge_cheat(ctx, 'required', w_[0], w_[1], formula, ('InvalidInput',), dict(wit, used_as='subgrader of a list'), call=w_[2])
        else:
            judge_cheat(ctx, 'required', twin, restricted, formula, ('InvalidInput',), wit)
        if i % 4 == 0:
            judge_honest(ctx, 'required', restricted, '%s(%s)' % (scale, ans), wit)


def run_forbidden(ctx):
    rng = ctx.rng
    for i in range(ctx.n(800, 48000)):
        cls_name = rng.choice(['FormulaGrader', 'MatrixGrader'])
        ans = rng.choice(['x^2', 'x^3'])
        forb = rng.choice([['x*x'], ['x * x', '*x*'], ['*x'], ['x*x', 'x^(1+1)']])
        by = {}
        if rng.random() < 0.4:
            by = rng.choice([{'blacklist': ['arccos']}, {'whitelist': ['sin', 'cos']}, {'whitelist': [None]}])
            ctx.count('restriction_combinations')
        restricted = build(cls_name, answers=({'expect': ans, 'grade_decimal': 1}, {'expect': '2*' + ans, 'grade_decimal': 0.5}),
                           variables=['x'], forbidden_strings=forb, forbidden_message='NOPE', **by)
        twin = build(cls_name, answers=({'expect': ans, 'grade_decimal': 1}, {'expect': '2*' + ans, 'grade_decimal': 0.5}), variables=['x'], **by)
        body = 'x*x' if ans == 'x^2' else 'x*x*x'
        sp = lambda s: ''.join(ch + (' ' * rng.randint(0, 2)) for ch in s)
        formula = rng.choice(['', '2*']) + rng.choice(['{b}', '({b})', '{b}+0', '0+{b}', ' {b} ']).format(b=sp(body))
        if not any(f.replace(' ', '') in formula.replace(' ', '') for f in forb):
            continue
        wit = {'grader': cls_name, 'restriction': 'forbidden', 'forbidden_strings': forb, 'answer': ans}
        judge_cheat(ctx, 'forbidden', twin, restricted, formula, ('InvalidInput',), wit)
        if i % 4 == 0:
            judge_honest(ctx, 'forbidden', restricted, ans, wit)
        if i % 50 == 0:
            # R6 observation: tabs are not spaces
            out = lib.call(ctx, restricted, None, body.replace('*', '\t*'))
            ctx.count('tab_variant_credited' if credited(out) else 'tab_variant_refused')


def run_names(ctx):
    from mitxgraders import FormulaGrader, MatrixGrader, RealInterval
    rng = ctx.rng
    NAME_ERR = ('UndefinedVariable', 'UndefinedFunction', 'UnableToParse')
    for i in range(ctx.n(1600, 120000)):
        cls = rng.choice([FormulaGrader, MatrixGrader])
        kind = rng.choice(['instructor_var', 'instructor_var', 'numbered', 'suffix', 'name', 'name', 'removed_constant'])
        ans_full, ans_part = 'x^2+1', '2*(x^2+1)'
        answers = ({'expect': ans_full, 'grade_decimal': 1}, {'expect': ans_part, 'grade_decimal': 0.5})
        target = rng.choice([ans_full, ans_part, 'x+7'])     # 'x+7' is a wrong answer: names must be rejected anyway
        tpl = rng.choice(NEUTRAL)
        wit = {'grader': cls.__name__, 'restriction': kind}
        if kind == 'instructor_var':
            # author's answer itself uses the instructor variable through a dependent form: c*x^2/c + 1
            from mitxgraders import DependentSampler
            a2 = ({'expect': 'c*x^2/c+1', 'grade_decimal': 1}, {'expect': '2*(c*x^2/c+1)', 'grade_decimal': 0.5})
            which = rng.choice(['variable', 'constant', 'dependent', 'identity'] if cls is MatrixGrader else ['variable', 'constant', 'dependent'])
            if which == 'identity':
                # the identity matrix that identity_dim provides, withheld from students
                a3 = ({'expect': 'x^2+1+0*trace(I)', 'grade_decimal': 1}, {'expect': '2*(x^2+1)', 'grade_decimal': 0.5})
                restricted = cls(answers=a3, variables=['x'], identity_dim=2, instructor_vars=['I'])
                twin = cls(answers=a3, variables=['x'], identity_dim=2)
                formula = tpl.format(A=target, R=rng.choice(['trace(I)', 'det(I)', 'trace(I*I)/2']))
                wit['instructor_var_is'] = 'identity matrix from identity_dim'
                judge_name(ctx, 'instructor_var', twin, restricted, formula, ('UndefinedVariable',), wit, target != 'x+7')
                continue
            if which == 'variable':
                restricted = cls(answers=a2, variables=['x', 'c'], instructor_vars=['c'], sample_from={'c': [2, 3]})
                twin = cls(answers=a2, variables=['x', 'c'], sample_from={'c': [2, 3]})
            elif which == 'constant':
                restricted = cls(answers=a2, variables=['x'], user_constants={'c': 2.5}, instructor_vars=['c'])
                twin = cls(answers=a2, variables=['x'], user_constants={'c': 2.5})
            else:
                restricted = cls(answers=a2, variables=['x', 'c'], instructor_vars=['c'], sample_from={'c': DependentSampler(formula='x+1')})
                twin = cls(answers=a2, variables=['x', 'c'], sample_from={'c': DependentSampler(formula='x+1')})
            formula = tpl.format(A=target, R='c')
            wit['instructor_var_is'] = which
            self_check = lib.call(ctx, restricted, None, ans_full)
            ctx.ev()
            ctx.count('honest_controls')
            if not credited(self_check):
                ctx.violation('C09:instructor_var:honest_answer_refused', repr(self_check.brief()), wit)
            judge_name(ctx, 'instructor_var', twin, restricted, formula, ('UndefinedVariable',), wit, target != 'x+7')
        elif kind == 'numbered':
            restricted = cls(answers=({'expect': 'x^2+1+0*a_{1}', 'grade_decimal': 1}, {'expect': ans_part, 'grade_decimal': 0.5}),
                             variables=['x'], numbered_vars=['a'])
            bad = rng.choice(['a_{01}', 'A_{1}', 'a_1', 'a', 'a_{1.5}', 'a_{-01}', 'a_{ 1 }x', 'b_{1}', 'a_{1}_{2}', "a_{1}'"])
            twin = None
            formula = tpl.format(A=target, R=bad)
            ok_formula = tpl.format(A=ans_full, R=rng.choice(['a_{1}', 'a_{0}', 'a_{-3}', 'a_{12}']))
            judge_honest(ctx, 'numbered', restricted, ok_formula, wit)
            judge_name(ctx, 'numbered', twin, restricted, formula, NAME_ERR, dict(wit, bad_name=bad), None)
        elif kind == 'removed_constant':
            # a default constant the author took away (user_constants={'pi': None}) is an unknown name for students, whatever
            # other options the grader carries
            gone = rng.choice(['pi', 'e', 'i', 'j'])
            opts = rng.choice([{}, {}, {'allow_inf': True}, {'allow_inf': True, 'tolerance': '1%'}, {'metric_suffixes': True},
                               {'user_constants_extra': {'tau': 6.28}}, {'samples': 3}])
            if cls is MatrixGrader:
                opts = dict((k, v) for k, v in opts.items() if k != 'allow_inf')    # (matrix graders have no infinities)
            opts = dict(opts)
            consts = dict(opts.pop('user_constants_extra', {}))
            twin = cls(answers=answers, variables=['x'], user_constants=dict(consts), **opts)
            restricted = cls(answers=answers, variables=['x'], user_constants=dict(consts, **{gone: None}), **opts)
            formula = tpl.format(A=target, R=gone)
            judge_name(ctx, 'removed_constant', twin, restricted, formula, ('UndefinedVariable',),
                       dict(wit, removed=gone, other_options=sorted(opts)), target != 'x+7')
        elif kind == 'suffix':
            restricted = cls(answers=answers, variables=['x'])
            twin = cls(answers=answers, variables=['x'], metric_suffixes=True)
            R = rng.choice(['1k', '2M', '3m', '1u', '5G'])
            formula = tpl.format(A=target, R=R)
            judge_name(ctx, 'suffix', twin, restricted, formula, NAME_ERR, dict(wit, suffix=R), target != 'x+7')
        else:
            restricted = cls(answers=answers, variables=['x', "y'", 'theta'])
            bad = rng.choice(['X', 'xx', "x'", 'y', "y''", 'Theta', 'x_1', 'x1', 'Pi', 'E', 'I', 'zork(1)', 'Sin(1)', 'SIN(x)', 'x(2)'])
            formula = tpl.format(A=target, R=bad)
            judge_name(ctx, 'name', None, restricted, formula, NAME_ERR, dict(wit, bad_name=bad), None)


def judge_name(ctx, restriction, twin, restricted, formula, allowed, wit, need_twin_credit):
    """Names that are not allowed are rejected as undefined whether or not they cancel."""
    if twin is not None:
        t = lib.call(ctx, twin, None, formula)
        ctx.ev()
        if need_twin_credit and not credited(t):
            ctx.count('vacuous_cheats')
            return
        if credited(t):
            ctx.count('cheats_twin_credited')
            if t.value['ok'] == 'partial':
                ctx.count('partial_credit_cheats')
    else:
        ctx.count('cheats_twin_credited')   # by construction: correct answer + neutral term (no twin exists)
    ctx.count('restriction:' + restriction)
    r = lib.call(ctx, restricted, None, formula)
    ctx.ev()
    wit = dict(wit, formula=formula, restricted=r.brief())
    ctx.nontrivial([restriction, formula, wit.get('grader')])
    if r.returned:
        key = 'bypass_credited' if r.value['grade_decimal'] > 0 else 'graded_wrong_instead_of_rejected'
        ctx.violation('C09:%s:%s' % (restriction, key), 'formula with a disallowed name returned %r' % (r.value,), wit)
    elif type(r.exc).__name__ not in allowed:
        ctx.violation('C09:%s:wrong_error_class' % restriction, 'raised %s(%s)' % (type(r.exc).__name__, str(r.exc)[:120]), wit)
    else:
        ctx.count('cheats_refused')


def run_siblings(ctx):
    from mitxgraders import FormulaGrader, ListGrader
    rng = ctx.rng
    for i in range(ctx.n(320, 20000)):
        sub = FormulaGrader(variables=['x'])
        g = ListGrader(answers=['x+1', rng.choice(['sibling_1^2', '2*sibling_1', 'sibling_1+x'])], subgraders=sub, ordered=True)
        second_honest = {'sibling_1^2': '(x+1)^2', '2*sibling_1': '2*x+2', 'sibling_1+x': '2*x+1'}[g.config['answers'][0][1][0]['expect'][0]['comparer_params'][0]]
        honest = lib.call(ctx, g, None, ['x+1', second_honest])
        ctx.ev()
        ctx.count('honest_controls')
        if not honest.returned or not all(e['ok'] is True for e in honest.value['input_list']):
            ctx.violation('C09:sibling:honest_answer_refused', repr(honest.brief()), {'inputs': ['x+1', second_honest]})
        cheat = rng.choice(['sibling_1^2', '2*sibling_1', 'sibling_1+x', '(x+1)^2+0*sibling_1', '(x+1)^2+sibling_1-sibling_1',
                            '2*x+2+0*sibling_2', 'sibling_1'])
        out = lib.call(ctx, g, None, ['x+1', cheat])
        ctx.ev()
        ctx.count('restriction:sibling')
        ctx.count('cheats_twin_credited')
        wit = {'answers': ['x+1', 'f(sibling_1)'], 'inputs': ['x+1', cheat], 'outcome': out.brief()}
        ctx.nontrivial(['sibling', cheat])
        if out.returned:
            ctx.violation('C09:sibling:' + ('bypass_credited' if out.value['input_list'][1]['grade_decimal'] > 0 else 'graded_wrong_instead_of_rejected'),
                          'student used a sibling variable: %r' % (out.value,), wit)
        elif type(out.exc).__name__ != 'UndefinedVariable':
            ctx.violation('C09:sibling:wrong_error_class', repr(out.exc), wit)
        else:
            ctx.count('cheats_refused')


def run_sibling_sampler(ctx):
    """A sibling that enters the scope only through a DependentSampler is just as unavailable to the student."""
    from mitxgraders import FormulaGrader, MatrixGrader, ListGrader, DependentSampler
    rng = ctx.rng
    for i in range(ctx.n(320, 16000)):
        cls = rng.choice([FormulaGrader, MatrixGrader])
        dep = rng.choice(['sibling_1^2', 'sibling_1+1', '2*sibling_1'])
        honest2 = {'sibling_1^2': '(x+1)^2', 'sibling_1+1': 'x+2', '2*sibling_1': '2*x+2'}[dep]
        with_instructor = rng.random() < 0.7
        second = cls(variables=['x', 'y'], sample_from={'y': DependentSampler(formula=dep)},
                     **({'instructor_vars': ['y']} if with_instructor else {}))
        ans2 = rng.choice(['y', 'y+0*x', ({'expect': 'y', 'grade_decimal': 1}, {'expect': '2*y', 'grade_decimal': 0.5})])
        g = ListGrader(answers=['x+1', ans2], subgraders=[FormulaGrader(variables=['x']), second], ordered=True)
        honest = lib.call(ctx, g, None, ['x+1', honest2])
        ctx.ev()
        ctx.count('honest_controls')
        wit = {'answers': ['x+1', 'y'], 'y_sampled_as': dep, 'instructor_vars': ['y'] if with_instructor else []}
        if not honest.returned or not all(e['ok'] is True for e in honest.value['input_list']):
            ctx.violation('C09:sibling_sampler:honest_answer_refused', repr(honest.brief()), dict(wit, inputs=['x+1', honest2]))
            continue
        cheat = rng.choice([dep, '(%s)+0*sibling_1' % honest2, '(%s)+sibling_1-sibling_1' % honest2, '(%s)*sibling_1^0' % honest2,
                            '(%s)+0*sin(sibling_1)' % honest2, '2*(%s)+0*sibling_1' % honest2] + (['y', '(%s)+0*y' % honest2] if with_instructor else []))
        out = lib.call(ctx, g, None, ['x+1', cheat])
        ctx.ev()
        ctx.count('restriction:sibling')
        ctx.count('restriction:sibling_via_sampler')
        ctx.count('cheats_twin_credited')
        wit = dict(wit, inputs=['x+1', cheat], outcome=out.brief())
        ctx.nontrivial(['sibling_sampler', dep, cheat, cls.__name__])
        if out.returned:
            ctx.violation('C09:sibling_sampler:' + ('bypass_credited' if out.value['input_list'][1]['grade_decimal'] > 0 else 'graded_wrong_instead_of_rejected'),
                          'student used a sibling / instructor variable: %r' % (out.value,), wit)
        elif type(out.exc).__name__ != 'UndefinedVariable':
            ctx.violation('C09:sibling_sampler:wrong_error_class', repr(out.exc), wit)
        else:
            ctx.count('cheats_refused')


def run_siblings3(ctx):
    """A sibling variable introduced for one box must not become usable in another box (shared subgrader)."""
    from mitxgraders import FormulaGrader, ListGrader
    rng = ctx.rng
    for i in range(ctx.n(320, 16000)):
        sub = FormulaGrader(variables=['x'])
        layout = rng.choice([['x+1', 'sibling_1^2', '2*x'], ['2*x', 'x+1', 'sibling_2^2', '3*x'], ['sibling_3^2', '2*x', 'x+1'],
                             ['x+1', '2*x', 'sibling_1+sibling_2'], ['sibling_2*sibling_3', 'x+1', '2*x']])
        g = ListGrader(answers=list(layout), subgraders=sub, ordered=True)
        honest = []
        for a in layout:
            honest.append({'x+1': 'x+1', '2*x': '2*x', '3*x': '3*x', 'sibling_1^2': '(x+1)^2', 'sibling_2^2': '(x+1)^2', 'sibling_3^2': '(x+1)^2',
                           'sibling_1+sibling_2': '3*x+1', 'sibling_2*sibling_3': '2*x*(x+1)'}[a])
        # several submissions in a row on the same grader: the leak, if any, persists in the shared subgrader
        for rep in range(3):
            o = lib.call(ctx, g, None, list(honest))
            ctx.ev()
            ctx.count('honest_controls')
            if not o.returned or not all(e['ok'] is True for e in o.value['input_list']):
                ctx.violation('C09:sibling:honest_answer_refused', repr(o.brief()), {'answers': layout, 'inputs': honest})
                break
            plain = [k for k, a in enumerate(layout) if 'sibling' not in a]
            box = rng.choice(plain)
            # (a box cannot sensibly refer to itself: that is a circular definition, reported as a ConfigError)
            sib = rng.choice([v for k, v in enumerate(['sibling_1', 'sibling_2', 'sibling_3', 'sibling_4'][:len(layout)]) if k != box])
            cheat = list(honest)
            cheat[box] = rng.choice(['(%s)+0*%s', '(%s)+%s-%s', '(%s)*(1+%s)^0']).replace('%s', '{a}', 1).replace('%s', '{s}').format(a=honest[box], s=sib)
            out = lib.call(ctx, g, None, cheat)
            ctx.ev()
            ctx.count('restriction:sibling')
            ctx.count('cheats_twin_credited')
            wit = {'answers': layout, 'inputs': cheat, 'cheating_box': box, 'outcome': out.brief()}
            ctx.nontrivial(['sibling3', layout, cheat])
            if out.returned:
                ctx.violation('C09:sibling:' + ('bypass_credited' if out.value['input_list'][box]['grade_decimal'] > 0 else 'graded_wrong_instead_of_rejected'),
                              'box %d used %s and was graded: %r' % (box, sib, out.value['input_list'][box]), wit)
                break
            else:
                # a box that other answers refer to is evaluated as the *definition* of that sibling variable first:
                # an undefined name inside it is then reported as a configuration error of the dependent sampler
                referenced = any(('sibling_%d' % (box + 1)) in a for a in layout)
                allowed = ('UndefinedVariable', 'ConfigError') if referenced else ('UndefinedVariable',)
                if type(out.exc).__name__ not in allowed:
                    ctx.violation('C09:sibling:wrong_error_class', repr(out.exc), wit)
                    break
            ctx.count('cheats_refused')


def run_siblings_mixed(ctx):
    """Sibling variables in ordered lists whose boxes are of different kinds: sibling_j is the j-th input box, so the honest answer is
    credited, constants that would match another box's own entry are not, and the student still cannot name a sibling."""
    from mitxgraders import FormulaGrader, ListGrader, StringGrader, NumericalGrader
    rng = ctx.rng
    F = lambda: FormulaGrader(variables=['x'])
    layouts = [
        (['cat', 'x+1', 'sibling_2^2'], lambda: [StringGrader(), F(), F()], ['cat', 'x+1', '(x+1)^2'], 2, ['1', '0', 'x+1']),
        (['cat', 'dog', 'x+1', 'sibling_3*2'], lambda: [StringGrader(), StringGrader(), F(), F()], ['cat', 'dog', 'x+1', '2*(x+1)'], 3, ['0', '2', '2*x']),
        (['x+1', 'cat', 'sibling_1+x'], lambda: [F(), StringGrader(), F()], ['x+1', 'cat', '2*x+1'], 2, ['x', '0', 'x+1']),
        (['3', 'cat', 'sibling_1+1'], lambda: [NumericalGrader(), StringGrader(), NumericalGrader()], ['3', 'cat', '4'], 2, ['1', '0', '3']),
    ]
    for i in range(ctx.n(80, 2000)):
        answers, mk, honest, box, wrongs = rng.choice(layouts)
        g = ListGrader(answers=list(answers), subgraders=mk(), ordered=True)
        wit = {'answers': answers, 'subgrader_kinds': [type(x_).__name__ for x_ in g.config['subgraders']]}
        o = lib.call(ctx, g, None, list(honest))
        ctx.ev()
        ctx.count('honest_controls')
        if not o.returned or not all(e['ok'] is True for e in o.value['input_list']):
            ctx.violation('C09:sibling:mixed_list:honest_answer_refused', repr(o.brief()), dict(wit, inputs=honest))
            continue
        for w_ in wrongs:
            sub = list(honest)
            sub[box] = w_
            o = lib.call(ctx, g, None, sub)
            ctx.ev()
            ctx.count('sibling_mixed_list_cases')
            if not o.returned or o.value['input_list'][box]['grade_decimal'] != 0:
                ctx.violation('C09:sibling:mixed_list:wrong_entry_credited', 'box %d = %r: %r' % (box + 1, w_, o.brief()), dict(wit, inputs=sub))
        sib = 'sibling_%d' % rng.choice([k + 1 for k in range(len(answers)) if k != box])
        cheat = list(honest)
        cheat[box] = '(%s)+0*%s' % (honest[box], sib)
        out = lib.call(ctx, g, None, cheat)
        ctx.ev()
        ctx.count('restriction:sibling')
        ctx.count('cheats_twin_credited')
        ctx.nontrivial(['sibling_mixed', answers, cheat])
        if out.returned:
            ctx.violation('C09:sibling:mixed_list:' + ('bypass_credited' if out.value['input_list'][box]['grade_decimal'] > 0 else 'graded_wrong_instead_of_rejected'),
                          'box %d used %s and was graded' % (box + 1, sib), dict(wit, inputs=cheat, outcome=out.brief()))
        elif type(out.exc).__name__ not in ('UndefinedVariable', 'ConfigError'):
            ctx.violation('C09:sibling:mixed_list:wrong_error_class', repr(out.exc)[:200], dict(wit, inputs=cheat))
        else:
            ctx.count('cheats_refused')


def run_sum(ctx):
    from mitxgraders import SumGrader
    rng = ctx.rng
    for i in range(ctx.n(480, 24000)):
        ans = {'lower': '1', 'upper': '6', 'summand': 'sin(n)^2+cos(n)^2+n', 'summation_variable': 'n'}
        kind = rng.choice(['blacklist', 'whitelist', 'whitelist_none', 'required', 'forbidden'])
        base = dict(answers=ans, samples=2, tolerance=1e-9)
        if kind == 'forbidden':
            # a forbidden string in ANY of the boxes (limits as well as summand)
            forb = rng.choice(['+0', '0+', '*1'])
            restricted = SumGrader(forbidden_strings=[forb.replace('', ' ').strip() if rng.random() < 0.3 else forb], **base)
            twin = SumGrader(**base)
            where = rng.choice(['summand', 'lower', 'upper'])
            sub = {'lower': '1', 'upper': '6', 'summand': 'sin(n)^2+cos(n)^2+n', 'summation_variable': 'n'}
            dress = {'+0': lambda t: '%s+0' % t, '0+': lambda t: '0+%s' % t, '*1': lambda t: '(%s)*1' % t}[forb]
            sub[where] = dress(sub[where])
            formula = [sub['lower'], sub['upper'], sub['summand'], 'n']
            wit = {'grader': 'SumGrader', 'restriction': 'forbidden_strings', 'forbidden': forb, 'where': where}
            judge_cheat(ctx, 'sum_blacklist', twin, restricted, repr(formula), ('InvalidInput',), wit,
                        call=lambda g: lib.call(ctx, g, None, list(formula)))
            ctx.count('sum_forbidden_string_cases')
            continue
        if kind == 'blacklist':
            restricted = SumGrader(blacklist=['tan'], **base)
        elif kind == 'whitelist':
            restricted = SumGrader(whitelist=['sin', 'cos'], **base)
        elif kind == 'whitelist_none':
            restricted = SumGrader(whitelist=[None], **base)
        else:
            restricted = SumGrader(required_functions=['sin'], **base)
        twin = SumGrader(**base)
        where = rng.choice(['summand', 'lower', 'upper'])
        R = 'tan(0)' if kind != 'required' else None
        sub = {'lower': '1', 'upper': '6', 'summand': '1+n', 'summation_variable': 'n'}
        if kind == 'required':
            formula = [sub['lower'], sub['upper'], sub['summand'], 'n']   # correct but omits sin
        else:
            if kind == 'whitelist_none':
                R = rng.choice(['tan(0)', 'sin(0)', 'abs(0)'])
            if where == 'summand':
                sub['summand'] = '1+n+0*%s' % R.replace('0', 'n', 1) if rng.random() < 0.5 else '1+n+%s' % R
            elif where == 'lower':
                sub['lower'] = '1+%s' % R
            else:
                sub['upper'] = '6+%s' % R
            formula = [sub['lower'], sub['upper'], sub['summand'], 'n']
        wit = {'grader': 'SumGrader', 'restriction': kind, 'where': where}
        judge_cheat(ctx, 'sum_blacklist', twin, restricted, repr(formula), ('InvalidInput',), wit,
                    call=lambda g: lib.call(ctx, g, None, list(formula)))
        if i % 4 == 0 and kind in ('blacklist', 'whitelist'):
            out = lib.call(ctx, restricted, None, ['1', '6', 'sin(n)^2+cos(n)^2+n', 'n'])
            ctx.ev()
            ctx.count('honest_controls')
            if not credited(out):
                ctx.violation('C09:sum:honest_answer_refused', repr(out.brief()), wit)


def run_registered_restrictions(ctx):
    """Restrictions that reach a grader through registered class defaults (docs/plugins.md): the one registered for the more
    derived class is the one in force ("precedence is given to the registered defaults of higher level classes")."""
    from mitxgraders import FormulaGrader, NumericalGrader, MatrixGrader
    rng = ctx.rng
    for rep in range(ctx.pick(6, 40)):
        sub_cls, answer, honest, cheats = rng.choice([
            (NumericalGrader, '0.5', '1/2', ['0.5+sin(0)', '0.5*cos(0)', '0.5+0*exp(1)']),
            (MatrixGrader, '[1,2]', '[2,4]/2', ['[1,2*cos(0)]', '[1,2]+0*[sin(1),1]', '[1,2]*exp(0)'])])
        loose, strict = rng.choice([({'whitelist': ['sin', 'cos', 'exp']}, {'whitelist': [None]}),
                                    ({'blacklist': []}, {'blacklist': ['sin', 'cos', 'exp']}),
                                    ({'forbidden_strings': []}, {'forbidden_strings': ['sin', 'cos', 'exp'], 'forbidden_message': 'NOPE'})])
        regs = [(FormulaGrader, loose), (sub_cls, strict)]
        rng.shuffle(regs)
        try:
            for cls, d in regs:
                cls.register_defaults(dict(d))
            g = sub_cls(answers=answer)
            wit = {'grader': sub_cls.__name__, 'registered_on_FormulaGrader': loose, 'registered_on_' + sub_cls.__name__: strict}
            judge_honest(ctx, 'registered_defaults', g, honest, wit)
            for formula in cheats:
                r = lib.call(ctx, g, None, formula)
                ctx.ev()
                ctx.count('restriction:registered_defaults')
                ctx.nontrivial(['registered', sub_cls.__name__, formula, sorted(strict)])
                w = dict(wit, formula=formula, restricted=r.brief())
                if r.returned:
                    ctx.violation('C09:registered_defaults:' + ('bypass_credited' if r.value['grade_decimal'] > 0 else 'graded_wrong_instead_of_rejected'),
                                  'the restriction registered for %s was not in force: %r' % (sub_cls.__name__, r.value), w)
                elif type(r.exc).__name__ != 'InvalidInput':
                    ctx.violation('C09:registered_defaults:wrong_error_class', repr(r.exc)[:160], w)
                else:
                    ctx.count('cheats_refused')
        finally:
            for cls, _ in regs:
                cls.clear_registered_defaults()


def run(ctx):
    run_functions(ctx)
    run_required(ctx)
    run_forbidden(ctx)
    run_names(ctx)
    run_siblings(ctx)
    run_sibling_sampler(ctx)
    run_siblings3(ctx)
    run_sum(ctx)
    run_siblings_mixed(ctx)
    if ctx.shard % 4 == 3:
        run_registered_restrictions(ctx)
    if ctx.shard == 0:
        ctx.sample({'restriction': 'blacklist=[sin]', 'answer': 'sin(x)^2', 'cheat': '(sin(x)^2)+0*(sin(1))',
                    'twin': 'credited', 'restricted': 'must raise InvalidInput'})
        ctx.sample({'restriction': 'instructor_vars=[c]', 'cheat': '(x^2+1)+(c)-(c)', 'restricted': 'must raise UndefinedVariable'})
