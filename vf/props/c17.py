"""
C17 -- attempt-based credit scales grades by a bounded, non-increasing schedule.

Monitors:
 (a) schedule monitor: every built-in schedule on the exhaustive parameter grid is called for
     attempts -5..200; each returned value is checked online for range, monotonicity, the
     value 1 at attempts <= 1, LinearCredit's minimum, and against a closed form written from
     the documentation.
 (b) grader monitor: twin differential -- the same grader without attempt-based credit gives
     the base result; the result with the feature on must be the base result with every
     positive grade multiplied by round(schedule(max(n,1)),4), ok recomputed, zeros untouched,
     the note present iff (some grade reduced and note enabled).  Author-defined *recording*
     schedules reveal which attempt number the library really passed.
"""
import re

from vf import lib

RULE = ('schedules: exhaustive LinearCredit 6x6x5 grid, GeometricCredit factors '
        '{0,.1,.5,.75,.99,1}, ReciprocalCredit, each at attempts -5..200; graders: String / '
        'SingleList / List graders whose base grades cover 0, partial and 1, x note flag x '
        'built-in and author schedules (int / float returning) x attempts incl. 0, negative, '
        'omitted. Non-trivial = attempt > 1 with a schedule value < 1 (schedule part) or a '
        'call whose base result has a positive grade and credit < 1 (grader part).')
ASSUMPTIONS = ['R10 of DESIGN.md: the quantifier sweeps attempts <= 0 and the statement forces 1 there',
               'grader oracle uses round(float(schedule(max(n,1))), 4), the documented 4-digit credit']

NOTE_RE = re.compile(r'Maximum credit for attempt #(-?\d+) is (\d+(?:\.\d+)?)%\.$')


def gates(tier):
    return {'schedule_values': 30000, 'grader_calls': 3000, 'reduced_results': 800,
            'note_checked': 400, 'zero_grade_entries': 300, 'missing_attempt': 30,
            'recorded_attempt_checked': 100, 'history_calls': 1000, 'registered_level_checks': 300}


def linear_ref(after, steps, minimum, n):
    if n <= after or n <= 1:
        return 1.0
    k = n - after
    if k >= steps:
        return float(minimum)
    return round(1 + (minimum - 1) * k / steps, 4)


def check_schedule(ctx, name, params, sched, ref, minimum=0.0):
    prev = None
    for n in range(-5, 201):
        out = lib.call(ctx, sched, n)
        ctx.ev()
        ctx.count('schedule_values')
        wit = {'schedule': name, 'params': params, 'attempt': n}
        region = 'attempt<1' if n < 1 else 'attempt>=1'
        if not out.returned:
            ctx.violation('C17:schedule:raises:%s:%s' % (name, region),
                          '%s(%r)(%d) raised %r' % (name, params, n, out.exc), wit)
            prev = None
            continue
        v = out.value
        wit['value'] = v
        if isinstance(v, bool) or not isinstance(v, (int, float)) or v != v:
            ctx.violation('C17:schedule:type:%s' % name, 'returned %r' % (v,), wit)
            continue
        if v < 0 or v > 1:
            ctx.violation('C17:schedule:range:%s:%s' % (name, region),
                          '%s(%r)(%d) = %r outside [0,1]' % (name, params, n, v), wit)
        elif n <= 1 and v != 1:
            ctx.violation('C17:schedule:first_attempt:%s:%s' % (name, region),
                          '%s(%r)(%d) = %r, expected 1' % (name, params, n, v), wit)
        if minimum > 0 and v < minimum - 1e-12:
            ctx.violation('C17:schedule:below_minimum:%s' % name, 'value %r < minimum %r' % (v, minimum), wit)
        if prev is not None and v > prev + 1e-12:
            ctx.violation('C17:schedule:increasing:%s:%s' % (name, region),
                          'value %r at attempt %d > %r at attempt %d' % (v, n, prev, n - 1), wit)
        if n >= 1:
            exp = ref(n)
            if abs(v - exp) > 1e-9:
                ctx.violation('C17:schedule:closed_form:%s' % name,
                              '%s(%r)(%d) = %r, documentation gives %r' % (name, params, n, v, exp), wit)
            if n > 1 and exp < 1:
                ctx.nontrivial(['sched', name, params, n])
        prev = v


def expected_ok(g):
    return True if g == 1 else (False if g == 0 else 'partial')


class RecordingSchedule(object):
    """Author-defined schedule backed by a table; records the attempt numbers it is asked."""

    def __init__(self, table, default):
        self.table, self.default, self.asked = table, default, []

    def __call__(self, attempt):
        self.asked.append(attempt)
        return self.table.get(attempt, self.default)


def make_graders(rng, extra):
    """Return list of (description, builder(extra_cfg) -> grader, inputs)."""
    from mitxgraders import StringGrader, SingleListGrader, ListGrader
    answers = (
        {'expect': 'full', 'grade_decimal': 1, 'msg': 'well {done} 100%'},
        {'expect': 'half', 'grade_decimal': 0.5},
        {'expect': 'third', 'grade_decimal': 1 / 3., 'msg': 'a\nb'},
        {'expect': 'tiny', 'grade_decimal': 0.1},
        {'expect': 'zero', 'grade_decimal': 0, 'msg': 'zero msg'},
        {'expect': 'pinned', 'grade_decimal': 1, 'ok': 'partial'},
        {'expect': 'pinnedf', 'ok': False},          # full credit labelled ok=False: the GRADE is what gets scaled
    )
    out = []
    wrong_msg = rng.choice(['', 'nope', 'no {pe} 100%'])
    ordered = rng.choice([True, False])
    out.append(('String', lambda cfg: StringGrader(answers=answers, wrong_msg=wrong_msg, **cfg),
                ['full', 'half', 'third', 'tiny', 'zero', 'wrong', '', 'pinned', 'pinnedf']))
    out.append(('SingleList', lambda cfg: SingleListGrader(
        answers=(['a', 'b', 'c'], {'expect': ['d', 'e', 'f'], 'grade_decimal': 0.5, 'msg': 'alt'}),
        subgrader=StringGrader(), **cfg),
        ['a,b,c', 'a,b', 'a,x,y', 'x,y,z', 'd,e,f', 'd', 'a,b,c,d', 'c,b,a']))
    out.append(('List', lambda cfg: ListGrader(
        answers=[answers, ('x', {'expect': 'y', 'grade_decimal': 0.25}), 'z'],
        subgraders=StringGrader(), ordered=ordered, **cfg),
        [['full', 'x', 'z'], ['half', 'y', 'z'], ['zero', 'q', 'q'], ['q', 'q', 'q'],
         ['z', 'third', 'x'], ['tiny', 'tiny', 'tiny'], ['pinned', 'y', 'w'], ['pinnedf', 'x', 'q'],
         ['wrong', 'x', 'z'], ['', 'y', 'z'], ['full', 'wrong', 'z'], ['q', 'q', 'z']]))      # (wrong boxes BEFORE credited ones)
    # debug output is appended AFTER the note: the note must survive it (messages are compared without the log)
    out.append(('ListDebug', lambda cfg: ListGrader(
        answers=[answers, ('x', {'expect': 'y', 'grade_decimal': 0.25}), 'z'],
        subgraders=StringGrader(), ordered=ordered, debug=True, **cfg),
        [['full', 'x', 'z'], ['half', 'y', 'z'], ['q', 'q', 'q'], ['tiny', 'tiny', 'tiny']]))
    out.append(('StringDebug', lambda cfg: StringGrader(answers=answers, wrong_msg=wrong_msg, debug=True, **cfg),
                ['full', 'half', 'third', 'zero', 'wrong']))
    out.append(('SingleListDebug', lambda cfg: SingleListGrader(
        answers=(['a', 'b', 'c'], {'expect': ['d', 'e', 'f'], 'grade_decimal': 0.5, 'msg': 'alt'}),
        subgrader=StringGrader(), debug=True, **cfg), ['a,b,c', 'a,b', 'x,y,z', 'd,e,f']))
    # graders without configured answers, called with expect=None
    out.append(('StringAcceptAny', lambda cfg: StringGrader(accept_any=True, **cfg), ['anything', 'x y', '']))
    out.append(('StringAcceptNonempty', lambda cfg: StringGrader(accept_nonempty=True, **cfg), ['anything', ' x ', '']))
    out.append(('ListNoPartial', lambda cfg: ListGrader(
        answers=['a', 'b'], subgraders=StringGrader(), partial_credit=False, **cfg),
        [['a', 'b'], ['b', 'a'], ['a', 'x'], ['x', 'y']]))
    return out


def strip_debug(msg):
    """The message without the debug log that debug=True appends (and without the separator before it)."""
    k = msg.find('<pre>MITx Grading Library')
    if k < 0:
        return msg
    head = msg[:k]
    while head.endswith('<br/>\n') or head.endswith('\n'):
        head = head[:-6] if head.endswith('<br/>\n') else head[:-1]
    return head


def entries_of(result):
    if 'input_list' in result:
        return result['input_list'], 'overall_message'
    return [result], 'msg'


def check_grader_call(ctx, desc, build, inp, sched_desc, sched, attempt, note_flag, recorder=None):
    base_grader = build({})
    cfg = {'attempt_based_credit': sched, 'attempt_based_credit_msg': note_flag}
    grader = build(cfg)
    wit = {'grader': desc, 'input': inp, 'schedule': sched_desc, 'attempt': attempt, 'note_flag': note_flag}
    ctx.seed_case(desc, repr(inp), attempt)
    base = lib.call(ctx, base_grader, None, inp)
    ctx.seed_case(desc, repr(inp), attempt)
    if recorder is not None:
        del recorder.asked[:]
    kwargs = {} if attempt is None else {'attempt': attempt}
    got = lib.call(ctx, grader, None, inp, **kwargs)
    ctx.ev()
    ctx.count('grader_calls')
    if attempt is None:
        ctx.count('missing_attempt')
        if base.returned:
            if got.returned or lib.err_family(got.exc) != 'ConfigError':
                ctx.violation('C17:missing_attempt', 'attempt omitted with the feature on: %r' % (got.brief(),), wit)
        return
    if not base.returned:
        # grading itself fails: same failure expected (feature never reached)
        if got.returned or type(got.exc) is not type(base.exc):
            ctx.violation('C17:error_path', 'base raised %r, with feature %r' % (base.brief(), got.brief()), wit)
        return
    if not got.returned:
        ctx.violation('C17:raises', 'call with attempt credit raised %r' % (got.brief(),), wit)
        return
    eff = max(attempt, 1)
    if recorder is not None:
        ctx.count('recorded_attempt_checked')
        if recorder.asked != [eff]:
            ctx.violation('C17:attempt_passed_to_schedule',
                          'schedule was asked for attempts %r, expected [%r]' % (recorder.asked, eff), wit)
    credit = round(float(sched(eff)), 4)
    wit['credit'] = credit
    bentries, key = entries_of(base.value)
    gentries, gkey = entries_of(got.value)
    wit['base'] = base.value
    wit['got'] = got.value
    if key != gkey or len(bentries) != len(gentries):
        ctx.violation('C17:shape', 'result shape changed', wit)
        return
    reduced = False
    for b, g in zip(bentries, gentries):
        bg = b['grade_decimal']
        if bg > 0:
            exp = bg * credit if credit != 1 else bg
            if credit != 1:
                reduced = True
            if abs(g['grade_decimal'] - exp) > 1e-12:
                ctx.violation('C17:grade_scaling', 'base grade %r, credit %r, got %r' % (bg, credit, g['grade_decimal']), wit)
            elif credit != 1 and g['ok'] != expected_ok(g['grade_decimal']):
                ctx.violation('C17:ok_not_recomputed', 'grade %r has ok=%r' % (g['grade_decimal'], g['ok']), wit)
            elif credit == 1 and g['ok'] != b['ok']:
                ctx.violation('C17:ok_changed_at_full_credit', 'ok %r -> %r' % (b['ok'], g['ok']), wit)
        else:
            ctx.count('zero_grade_entries')
            if g['grade_decimal'] != 0 or g['ok'] is not False and g['ok'] != b['ok']:
                ctx.violation('C17:zero_grade_changed', 'zero-grade entry became %r' % (g,), wit)
        if key == 'overall_message' and g['msg'] != b['msg']:
            ctx.violation('C17:entry_msg_changed', 'entry message changed', wit)
    if reduced:
        ctx.count('reduced_results')
        ctx.nontrivial(['grader', desc, inp, sched_desc, attempt, note_flag])
    bmsg, gmsg = strip_debug(base.value[key]), strip_debug(got.value[key])
    if 'Debug' in desc:
        ctx.count('debug_grader_calls')
    want_note = reduced and note_flag
    ctx.count('note_checked')
    if not want_note:
        if gmsg != bmsg:
            ctx.violation('C17:note_unexpected' if 'Maximum credit' in gmsg else 'C17:msg_changed',
                          'message %r -> %r although %s' % (bmsg, gmsg, 'no grade was reduced' if not reduced else 'the note is disabled'), wit)
        return
    ctx.count('note_expected')
    m = NOTE_RE.search(gmsg)
    if not m or not gmsg.startswith(bmsg):
        ctx.violation('C17:note_missing', 'message %r lacks the note (base %r)' % (gmsg, bmsg), wit)
        return
    between = gmsg[len(bmsg):m.start()]
    if re.sub(r'(<br/>|\s)', '', between) != '' or (bmsg and between == ''):
        ctx.violation('C17:note_separator', 'odd text between message and note: %r' % between, wit)
    if int(m.group(1)) != eff:
        ctx.violation('C17:note_attempt_number', 'note names attempt %s, call was attempt %d' % (m.group(1), attempt), wit)
    pct = float(m.group(2))
    if abs(pct - credit * 100) > 0.05 + 1e-9 or m.group(2).endswith('.0'):
        ctx.violation('C17:note_percentage', 'note says %s%% for credit %r' % (m.group(2), credit), wit)


def run_histories(ctx):
    """One grader object, several calls: each call is judged by its own attempt number (or its absence)."""
    from mitxgraders import LinearCredit, GeometricCredit
    rng = ctx.rng
    graders = make_graders(rng, None)
    for i in range(ctx.n(640, 8000)):
        desc, build, inputs = graders[i % len(graders)]
        sched = rng.choice([LinearCredit(decrease_credit_after=1, decrease_credit_steps=3, minimum_credit=0.1), GeometricCredit(factor=0.5)])
        g = build({'attempt_based_credit': sched, 'attempt_based_credit_msg': True})
        base_g = build({})
        seq = [rng.choice([1, 2, 3, 5, None, None, 0]) for _ in range(rng.randint(2, 5))]
        hist = []
        for attempt in seq:
            inp = rng.choice(inputs)
            kwargs = {} if attempt is None else {'attempt': attempt}
            base = lib.call(ctx, base_g, None, inp)
            got = lib.call(ctx, g, None, inp, **kwargs)
            ctx.ev()
            ctx.count('grader_calls')
            ctx.count('history_calls')
            hist.append(attempt)
            wit = {'grader': desc, 'input': inp, 'attempts_so_far_on_this_object': list(hist), 'outcome': got.brief()}
            ctx.nontrivial(['hist', desc, list(hist), repr(inp)])
            if not base.returned:
                continue
            if attempt is None:
                ctx.count('missing_attempt')
                if got.returned or lib.err_family(got.exc) != 'ConfigError':
                    ctx.violation('C17:missing_attempt:after_history', 'attempt omitted (earlier calls: %r): %r' % (hist[:-1], got.brief()), wit)
                continue
            if not got.returned:
                ctx.violation('C17:raises', 'call with attempt credit raised %r' % (got.brief(),), wit)
                continue
            credit = round(float(sched(max(attempt, 1))), 4)
            bent, _ = entries_of(base.value)
            gent, _ = entries_of(got.value)
            for b, e in zip(bent, gent):
                exp = b['grade_decimal'] * credit if (b['grade_decimal'] > 0 and credit != 1) else b['grade_decimal']
                if abs(e['grade_decimal'] - exp) > 1e-12:
                    ctx.violation('C17:grade_scaling:after_history', 'base %r, credit %r for attempt %r, got %r' % (b['grade_decimal'], credit, attempt, e['grade_decimal']), wit)
                    break


def run_registered_levels(ctx):
    """Attempt-based credit switched on through registered class defaults (docs/plugins.md, plugins/defaults_sample.py: "Precedence is
    given to the registered defaults of higher level classes", higher level meaning the more derived class, as in the StringGrader /
    AbstractGrader example just above that sentence): a grader is scaled by the schedule registered for the most derived class that
    has one, and by the course-wide one otherwise."""
    from mitxgraders import StringGrader, FormulaGrader, ListGrader, LinearCredit, GeometricCredit, ReciprocalCredit
    from mitxgraders.baseclasses import AbstractGrader, ItemGrader
    rng = ctx.rng
    for rep in range(ctx.pick(6, 40)):
        course = ReciprocalCredit()
        items = LinearCredit(decrease_credit_after=2, decrease_credit_steps=2, minimum_credit=0.5)
        strings = GeometricCredit(factor=0.9)
        regs = [(AbstractGrader, {'attempt_based_credit': course, 'attempt_based_credit_msg': False}),
                (ItemGrader, {'attempt_based_credit': items, 'attempt_based_credit_msg': True})]
        three = rng.random() < 0.5
        if three:
            regs.append((StringGrader, {'attempt_based_credit': strings}))
        rng.shuffle(regs)           # (the order of the register_defaults calls plays no role)
        try:
            for cls, d in regs:
                cls.register_defaults(d)
            probes = [('StringGrader', StringGrader(answers={'expect': 'cat', 'grade_decimal': 0.5}), 'cat', 0.5, strings if three else items, True),
                      ('FormulaGrader', FormulaGrader(answers='x', variables=['x']), 'x', 1, items, True),
                      ('ListGrader', ListGrader(answers=['cat', 'dog'], subgraders=StringGrader(attempt_based_credit=None), ordered=True), ['cat', 'dog'], 1, course, False)]
            for name, g, inp, base, sched, note in probes:
                for attempt in (1, 2, 3, 4, 9):
                    out = lib.call(ctx, g, None, inp, attempt=attempt)
                    ctx.ev()
                    ctx.count('grader_calls')
                    ctx.count('registered_level_checks')
                    credit = round(float(sched(attempt)), 4)
                    wit = {'grader': name, 'attempt': attempt, 'registered_on': [c.__name__ for c, _ in regs], 'schedule_in_force': type(sched).__name__,
                           'outcome': out.brief()}
                    ctx.nontrivial(['reglevel', name, attempt, three])
                    if not out.returned:
                        ctx.violation('C17:registered_levels:raises', repr(out.exc), wit)
                        continue
                    grades = [e['grade_decimal'] for e in out.value['input_list']] if 'input_list' in out.value else [out.value['grade_decimal']]
                    msg = out.value.get('overall_message', out.value.get('msg', ''))
                    if any(abs(gd - base * credit) > 1e-9 for gd in grades):
                        ctx.violation('C17:registered_levels:wrong_schedule', 'grades %r, expected %r (= %r x %s(%d))' % (grades, base * credit, base, type(sched).__name__, attempt), wit)
                    elif (('Maximum credit for attempt #%d' % attempt) in msg) != (note and credit < 1):
                        ctx.violation('C17:registered_levels:note', 'message %r' % (msg,), wit)
        finally:
            for cls, _ in regs:
                cls.clear_registered_defaults()


def run(ctx):
    from mitxgraders import LinearCredit, GeometricCredit, ReciprocalCredit
    rng = ctx.rng

    # ---- (a) schedules, exhaustive grid (sharded)
    idx = 0
    n_grid = 0
    for after in range(1, 7):
        for steps in range(1, 7):
            for minimum in (0, 0.1, 0.2, 0.5, 1):
                if ctx.mine(idx):
                    params = {'decrease_credit_after': after, 'decrease_credit_steps': steps,
                              'minimum_credit': minimum}
                    s = LinearCredit(**params)
                    check_schedule(ctx, 'LinearCredit', params, s,
                                   lambda n, a=after, st=steps, m=minimum: linear_ref(a, st, m, n), minimum)
                    n_grid += 1
                idx += 1
    for factor in (0, 0.1, 0.5, 0.75, 0.99, 1):
        if ctx.mine(idx):
            s = GeometricCredit(factor=factor)
            check_schedule(ctx, 'GeometricCredit', {'factor': factor}, s,
                           lambda n, f=factor: 1.0 if n == 1 else round(float(f) ** (n - 1), 4))
            n_grid += 1
        idx += 1
    if ctx.mine(idx):
        check_schedule(ctx, 'ReciprocalCredit', {}, ReciprocalCredit(), lambda n: round(1.0 / n, 4))
        n_grid += 1
    idx += 1
    if ctx.mine(idx):
        check_schedule(ctx, 'LinearCredit', {}, LinearCredit(), lambda n: linear_ref(1, 4, 0.2, n), 0.2)
        check_schedule(ctx, 'GeometricCredit', {}, GeometricCredit(),
                       lambda n: 1.0 if n == 1 else round(0.75 ** (n - 1), 4))
        n_grid += 2
    ctx.subspace('built-in schedule parameter grid x attempts -5..200', n_grid * 206, True)

    # ---- (b) graders
    schedules = [
        ('Linear(default)', lambda: LinearCredit()),
        ('Linear(2,3,0)', lambda: LinearCredit(decrease_credit_after=2, decrease_credit_steps=3, minimum_credit=0)),
        ('Linear(1,1,1)', lambda: LinearCredit(decrease_credit_after=1, decrease_credit_steps=1, minimum_credit=1)),
        ('Geometric(0.75)', lambda: GeometricCredit()),
        ('Geometric(0)', lambda: GeometricCredit(factor=0)),
        ('Geometric(0.99)', lambda: GeometricCredit(factor=0.99)),
        ('Geometric(0.5)', lambda: GeometricCredit(factor=0.5)),            # 0.0002 at attempt 13, 0.0001 at attempt 14
        ('author:tiny', lambda: (lambda n: 1 if n < 2 else 0.0003)),
        ('author:0.57', lambda: (lambda n: 1 if n < 2 else 0.57)), ('author:0.29', lambda: (lambda n: 1 if n < 2 else 0.29)),
        ('author:0.0499', lambda: (lambda n: 1 if n < 2 else 0.0499)), ('author:0.1999', lambda: (lambda n: 1 if n < 2 else 0.1999)),        # tiny but not zero: grades stay positive, ok stays 'partial'
        ('Reciprocal', lambda: ReciprocalCredit()),
        ('author:int', lambda: (lambda n: 1 if n < 3 else 0)),
        ('author:float', lambda: (lambda n: 1.0 if n < 2 else 0.3333333)),
        ('author:const', lambda: (lambda n: 0.5)),
        ('author:rounds_to_1', lambda: (lambda n: 0.99996)),
    ]
    attempts = [1, 2, 3, 4, 5, 6, 7, 10, 13, 14, 50, 51, 101, 200, 0, -1, -5, None]      # (13, 14: geometric credits of 1e-4 .. 5e-4)
    graders = make_graders(rng, None)
    combos = []
    for gi, (desc, build, inputs) in enumerate(graders):
        for inp in inputs:
            for si, (sdesc, smake) in enumerate(schedules):
                for attempt in attempts:
                    for flag in (True, False):
                        combos.append((desc, build, inp, sdesc, smake, attempt, flag))
    # quick: a random third; thorough: everything
    for i, (desc, build, inp, sdesc, smake, attempt, flag) in enumerate(combos):
        if not ctx.mine(i):
            continue
        if ctx.quick and rng.random() > 0.5:
            continue
        check_grader_call(ctx, desc, build, inp, sdesc, smake(), attempt, flag)
        if i % 997 == 0:
            ctx.sample({'grader': desc, 'input': inp, 'schedule': sdesc, 'attempt': attempt, 'note': flag})
    ctx.subspace('grader x input x schedule x attempt x note-flag grid', len(combos) // ctx.nshards,
                 not ctx.quick)

    run_histories(ctx)
    if ctx.shard % 4 == 2:
        run_registered_levels(ctx)

    # recording author schedules: the library must ask for max(n, 1) exactly once
    for i in range(ctx.n(1600, 160000)):
        desc, build, inputs = graders[i % len(graders)]
        inp = rng.choice(inputs)
        import numpy as np
        table = {0: 0.3, -1: 0.7, 1: rng.choice([1, 1.0, 0.9, np.float64(1.0)]), 2: rng.choice([0.5, np.float64(0.5)]), 3: rng.choice([0.25, 0, 1, np.int64(0)])}
        rec = RecordingSchedule(table, rng.choice([0.125, 0.2, 0, np.float32(0.25)]))
        attempt = rng.choice([-3, -1, 0, 1, 2, 3, 4, 9, np.int64(2), np.int64(4)])
        check_grader_call(ctx, desc, build, inp, 'author:recording%r' % (sorted(table.items()),), rec,
                          attempt, rng.choice([True, False]), recorder=rec)
