"""
C13 -- sampled variable sets are complete and dependent values are consistent.

Monitor: (a) direct calls of gen_symbols_samples on generated dependency DAGs in every
declaration order, judged by closed-form Python references of the dependent formulas on the
same sample; (b) cyclic / dangling variants must raise ConfigError within the CPU budget;
(c) a tap on the gen_symbols_samples binding used by the graders records every sample list
drawn during real grader calls (numbered variables, colliding names, sibling formulas, user
functions that record their arguments) and applies the same completeness/consistency checks.
"""
import itertools
import math

import numpy as np

from vf import lib

RULE = ('random dependency DAGs of up to 8 variables (chains, diamonds, fan-in/out, constants, '
        'vector-valued and numbered symbols) in every declaration order (<=5 variables exhaustively, '
        'sampled beyond); small cyclic and dangling variants; grader calls with numbered variables '
        '(indices -12..123, colliding plain names), sibling formulas and recording user functions. '
        'Non-trivial = a configuration with at least one dependent variable (or a numbered / sibling '
        'variable); distinct by (DAG, declaration order).')
ASSUMPTIONS = ['dependent formulas are instantiated from templates whose value is known in closed form',
               'independent variables use harness-defined scripted samplers or intervals disjoint from the default [1,5]']

TEMPLATES = [
    ('{0}+2*{1}', 2, lambda a, b: a + 2 * b),
    ('{0}*{1}-1', 2, lambda a, b: a * b - 1),
    ('{0}^2+1', 1, lambda a: a ** 2 + 1),
    ('{0}+c0', 1, lambda a: a + 7.5),
    ('sqrt({0}^2+{1}^2)', 2, lambda a, b: math.sqrt(a * a + b * b)),
    ('-{0}/2', 1, lambda a: -a / 2),
    ('{0}-{1}+{2}*pi', 3, lambda a, b, c: a - b + c * math.pi),
    ('2*{0}', 1, lambda a: 2 * a),
    ('{0}+0*{1}', 2, lambda a, b: a + 0 * b),
    ('{0}+1k', 1, lambda a: a + 1000.0),
    ('2m*{0}+5%', 1, lambda a: 0.002 * a + 0.05),
]
CONSTANTS = {'c0': 7.5, 'pi': math.pi, 'e': math.e, 'i': 1j, 'j': 1j, 'kk': -3.0}
TAP = {'records': []}


def gates(tier):
    return {'direct_configs': 2500, 'dependent_values_checked': 20000, 'declaration_orders_exhaustive': 1000,
            'cyclic_or_dangling_configs': 1000, 'grader_sample_lists_tapped': 600, 'numbered_instances_checked': 500,
            'sibling_cases': 100, 'sibling_via_dependent_sampler_cases': 60, 'sibling_numbering_with_string_boxes': 30, 'recorded_function_calls': 1000, 'shadowed_constant_cases': 100}


def make_dag(rng, n, allow_vector=True):
    """Variables v0..v(n-1) in topological order.  Returns list of dicts."""
    names = rng.sample(['x', 'y', 'z', 'w', 'u', 'q', 'r', 's', 'tt', 'a_{1}', 'b2', "p'", 'kk'], n)
    nindep = rng.randint(1, max(1, n - 1))
    variables = []
    for k, nm in enumerate(names):
        if k < nindep:
            base = 10 * (k + 2)
            variables.append({'name': nm, 'kind': 'indep', 'range': [base + 1, base + 2]})
        else:
            earlier = [v for v in variables if v.get('vec') is None]
            tpl = rng.choice(TEMPLATES)
            if tpl[1] > len(earlier):
                tpl = TEMPLATES[2]
            deps = rng.sample(earlier, tpl[1])
            variables.append({'name': nm, 'kind': 'dep', 'formula': tpl[0].format(*[d['name'] for d in deps]),
                              'deps': [d['name'] for d in deps], 'fn': tpl[2]})
    return variables


def build_sample_from(variables):
    from mitxgraders import RealInterval, DependentSampler
    sf = {}
    for v in variables:
        if v['kind'] == 'indep':
            sf[v['name']] = RealInterval(v['range'])
        else:
            sf[v['name']] = DependentSampler(formula=v['formula'])
    return sf


def check_samples(ctx, key, variables, constants, sample_list, wit, nsamples=None):
    """The completeness + consistency predicate, shared by the direct route and the tap."""
    names = [v['name'] for v in variables]
    if nsamples is not None and len(sample_list) != nsamples:
        ctx.violation(key + ':sample_count', 'asked for %d samples, got %d' % (nsamples, len(sample_list)), wit)
    for sample in sample_list:
        for nm in names:
            if nm not in sample:
                ctx.violation(key + ':missing_variable', 'sample lacks %r' % nm, dict(wit, sample=sample))
                return
        for c, val in constants.items():
            if c in names:
                ctx.count('shadowed_constant_cases')
                continue
            if c not in sample:
                ctx.violation(key + ':missing_constant', 'sample lacks the constant %r' % c, dict(wit, sample=sample))
                return
            if sample[c] != val:
                ctx.violation(key + ':constant_value', 'constant %r has value %r' % (c, sample[c]), dict(wit, sample=sample))
        for v in variables:
            val = sample[v['name']]
            if v['kind'] == 'indep':
                lo, hi = v['range']
                if not (isinstance(val, (int, float, np.floating, np.integer)) and lo <= val <= hi):
                    ctx.violation(key + ':independent_outside_sampler', '%r = %r outside its sampling set %r' % (v['name'], val, v['range']),
                                  dict(wit, sample=sample))
            else:
                try:
                    ref = v['fn'](*[sample[d] for d in v['deps']])
                except Exception as exc:  # noqa
                    ctx.violation(key + ':dependency_value_unusable', repr(exc), dict(wit, sample=sample))
                    continue
                ctx.count('dependent_values_checked')
                if not (abs(complex(val) - complex(ref)) <= 1e-9 * max(1.0, abs(complex(ref)))):
                    ctx.violation(key + ':dependent_inconsistent',
                                  '%r = %r but its formula %r gives %r on the same sample' % (v['name'], val, v['formula'], ref),
                                  dict(wit, sample=sample))


def run_direct(ctx):
    from mitxgraders.sampling import gen_symbols_samples
    from mitxgraders.helpers.calc import DEFAULT_FUNCTIONS
    rng = ctx.rng
    for i in range(ctx.n(3200, 60000)):
        n = rng.choice([2, 3, 3, 4, 4, 5, 5, 6, 7, 8])
        variables = make_dag(rng, n)
        if not any(v['kind'] == 'dep' for v in variables):
            continue
        names = [v['name'] for v in variables]
        if n <= 5 and (n <= 4 or ctx.pick(False, True) or i % 4 == 0):
            orders = list(itertools.permutations(range(n)))
            ctx.count('declaration_orders_exhaustive', len(orders))
        else:
            orders = [tuple(rng.sample(range(n), n)) for _ in range(6)] + [tuple(range(n)), tuple(reversed(range(n)))]
        for order in orders:
            symbols = [names[k] for k in order]
            sf = build_sample_from(variables)
            nsamples = rng.randint(1, 4)
            out = lib.call(ctx, gen_symbols_samples, symbols, nsamples, sf, DEFAULT_FUNCTIONS, {'%': 0.01, 'k': 1000.0, 'm': 0.001}, CONSTANTS)
            ctx.ev()
            ctx.count('direct_configs')
            wit = {'declaration_order': symbols,
                   'variables': [{k: v[k] for k in ('name', 'kind', 'range', 'formula') if k in v} for v in variables]}
            if not out.returned:
                ctx.violation('C13:direct:raises' if out.kind == 'exc' else 'C13:direct:hang',
                              'valid dependency DAG: %r' % (out.brief(),), wit)
                continue
            check_samples(ctx, 'C13:direct', variables, CONSTANTS, out.value, wit, nsamples)
            ctx.nontrivial(['dag', wit['variables'], symbols])
        if i < 2:
            ctx.sample({'variables': wit['variables'], 'orders_checked': len(orders)})


def run_cycles(ctx):
    from mitxgraders import RealInterval, DependentSampler
    from mitxgraders.sampling import gen_symbols_samples
    from mitxgraders.helpers.calc import DEFAULT_FUNCTIONS
    rng = ctx.rng
    shapes = [
        ('self', {'x': 'x+1'}), ('two_cycle', {'x': 'y+1', 'y': 'x*2'}), ('three_cycle', {'x': 'y+1', 'y': 'z+1', 'z': 'x+1'}),
        ('cycle_with_tail', {'a': '2', 'x': 'y+a', 'y': 'x+a', 'w': 'x+1'}), ('dangling', {'x': 'zz+1'}),
        ('dangling_chain', {'x': 'y+1', 'y': 'nope*2'}), ('dangling_and_cycle', {'x': 'y+1', 'y': 'x+zz'}),
        ('cycle_through_constant_name', {'x': 'e+1', 'e': 'x+1'}), ('constant_shadow_chain', {'b': 'a+1', 'c': 'b+1'}),
        ('dangling_function', {'x': 'zork(2)+1'}), ('dependent_formula_error', {'x': '1/0'}),
        ('resolvable_plus_dangling', {'p': 'a+1', 'x': 'zz+1'}), ('resolvable_plus_cycle', {'p': 'a+1', 'x': 'y+1', 'y': 'x+1'}),
        ('chain_then_dangling', {'p': 'a+1', 'q': 'p*2', 'x': 'q+zz'}), ('two_resolvable_plus_self', {'p': 'a+1', 'q': 'a*2', 'x': 'x+p'}),
        # missing names that contain braces / primes (numbered instances, tensor names)
        ('dangling_numbered_instance', {'x': 'c_{2}+1'}), ('dangling_tensor_name', {'x': 'T_{ab}^{c}*2', 'p': 'a+1'}),
        ('dangling_negative_index', {'x': "c_{-1}+w'"}), ('cycle_of_braced_names', {'c_{1}': 'c_{2}+1', 'c_{2}': 'c_{1}+1'}),
    ]
    for i in range(ctx.n(1600, 16000)):
        kind, dep = shapes[i % len(shapes)]
        names = list(dep.keys())
        extra = ['a'] if any('a' in f for f in dep.values()) and 'a' not in dep else []
        symbols = names + extra
        rng.shuffle(symbols)
        sf = {}
        ok_build = True
        for nm in symbols:
            if nm in dep and dep[nm] != '2':
                try:
                    sf[nm] = DependentSampler(formula=dep[nm])
                except Exception as exc:  # noqa
                    ok_build = False
                    if lib.err_family(exc) != 'ConfigError':
                        ctx.violation('C13:cycle:constructor_error_class', repr(exc), {'kind': kind})
            else:
                sf[nm] = RealInterval([11, 12])
        if not ok_build:
            continue
        out = lib.call(ctx, gen_symbols_samples, symbols, 2, sf, DEFAULT_FUNCTIONS, {'%': 0.01}, CONSTANTS)
        ctx.ev()
        wit = {'kind': kind, 'declaration_order': symbols, 'formulas': dep, 'outcome': out.brief()}
        if kind == 'constant_shadow_chain':
            # 'a' is a plain variable here: a valid chain b=a+1, c=b+1 -- must give values
            ctx.count('direct_configs')
            if not out.returned:
                ctx.violation('C13:direct:raises', repr(out.brief()), wit)
            else:
                for smp in out.value:
                    if abs(smp['b'] - (smp['a'] + 1)) > 1e-9 or abs(smp['c'] - (smp['b'] + 1)) > 1e-9:
                        ctx.violation('C13:direct:dependent_inconsistent', 'chain values %r' % (smp,), wit)
            continue
        ctx.count('cyclic_or_dangling_configs')
        ctx.nontrivial(['cyc', kind, symbols])
        if out.kind == 'hang':
            ctx.violation('C13:cycle:hang:' + kind, 'did not terminate within the CPU budget', wit)
        elif out.returned:
            ctx.violation('C13:cycle:value:' + kind, 'returned samples %r' % (out.value,), wit)
        elif lib.err_family(out.exc) != 'ConfigError':
            ctx.violation('C13:cycle:error_class:' + kind, 'raised %r instead of a ConfigError' % (out.exc,), wit)


# ----------------------------------------------------------------------------- grader route + tap
def install_tap():
    from mitxgraders.helpers import math_helpers
    if getattr(math_helpers.gen_symbols_samples, '_vf', False):
        return
    orig = math_helpers.gen_symbols_samples

    def tapped(symbols, samples, sample_from, functions, suffixes, constants):
        out = orig(symbols, samples, sample_from, functions, suffixes, constants)
        TAP['records'].append((list(symbols), samples, dict(constants), out))
        return out
    tapped._vf = True
    math_helpers.gen_symbols_samples = tapped


def run_graders(ctx):
    from mitxgraders import FormulaGrader, ListGrader, RealInterval, DependentSampler, DiscreteSet
    rng = ctx.rng
    install_tap()
    for i in range(ctx.n(800, 12000)):
        ctx.seed_case('g', i)
        recorded = []

        def rec(x):
            recorded.append(('rec', x))
            return x

        def rec2(x, y):
            recorded.append(('rec2', x, y))
            return x + 0 * y
        mode = i % 4
        TAP['records'] = []
        if mode in (0, 1):
            # numbered variables; indices incl. negative and multi-digit; colliding plain names
            idxs = rng.sample([-12, -3, -1, 0, 1, 2, 7, 10, 45, 123], 3)
            base_range = [31, 32]
            plain = mode == 1
            cfg = dict(numbered_vars=['a'], variables=['x'] + (['a_{0}'] if plain else []),
                       sample_from={'a': base_range, 'x': [21, 22]}, user_functions={'rec': rec}, samples=3)
            dep_base = rng.random() < 0.3
            if dep_base:
                # the base name's sampling set is itself a dependent sampler: every instance is x+10 (x in [21,22], so within [31,32])
                from mitxgraders import DependentSampler
                cfg['sample_from']['a'] = DependentSampler(formula='x+10')
                ctx.count('numbered_base_is_dependent_sampler')
            const_same_name = rng.random() < 0.3
            if const_same_name:
                # the bare name 'a' is an ordinary constant; only a_{n} are numbered instances
                cfg['user_constants'] = {'a': 51.5}
            if plain:
                cfg['sample_from']['a_{0}'] = [41, 42]
                idxs = [0] + idxs[:2]
            inst_const = (not plain) and rng.random() < 0.3
            if inst_const:
                # an author constant carrying the very name of a numbered instance in use: the instance is a variable and shadows it
                cfg.setdefault('user_constants', {})['a_{%d}' % idxs[-1]] = 77.5
                ctx.count('numbered_instance_named_like_a_constant')
            terms = ['rec(a_{%d})' % k for k in idxs]
            ans = '+'.join(terms) + '+x'
            sub = 'x+' + '+'.join(reversed(terms))
            if const_same_name:
                ans, sub = ans + '+a', 'a+' + sub
            g = FormulaGrader(answers=ans, **cfg)
            out = lib.call(ctx, g, None, sub)
            ctx.ev()
            wit = {'answers': ans, 'submission': sub, 'plain_a_{0}': plain, 'constant_named_like_the_numbered_variable': const_same_name, 'constant_named_like_an_instance': inst_const, 'base_sampler_is_dependent': dep_base,
                   'outcome': out.brief()}
            if not out.returned or out.value['ok'] is not True:
                ctx.violation('C13:grader:numbered:verdict', 'identical formula not graded correct: %r' % (out.brief(),), wit)
            for smp_symbols, nsamp, consts, smp_list in TAP['records']:
                if 'x' not in smp_symbols:
                    continue
                ctx.count('grader_sample_lists_tapped')
                for smp in smp_list:
                    for k in idxs:
                        nm = 'a_{%d}' % k
                        ctx.count('numbered_instances_checked')
                        if nm not in smp:
                            ctx.violation('C13:grader:numbered:missing_instance', 'sample lacks %r' % nm, dict(wit, sample=smp))
                            continue
                        lo, hi = (41, 42) if (plain and k == 0) else base_range
                        if not lo <= smp[nm] <= hi:
                            ctx.violation('C13:grader:numbered:' + ('plain_name_overridden' if plain and k == 0 else 'wrong_sampler'),
                                          '%r = %r, expected a draw from %r' % (nm, smp[nm], [lo, hi]), dict(wit, sample=smp))
                    if not 21 <= smp.get('x', 0) <= 22:
                        ctx.violation('C13:grader:variable_outside_sampler', 'x = %r' % smp.get('x'), dict(wit, sample=smp))
                    if not const_same_name and 'a' in smp:
                        ctx.violation('C13:grader:numbered:spurious_base_name', 'the sample assigns %r to the bare base name a, which is no variable' % (smp['a'],),
                                      dict(wit, sample=smp))
                    if const_same_name and smp.get('a') != 51.5:
                        ctx.violation('C13:grader:numbered:constant_with_base_name_lost', 'constant a = 51.5, sample has %r' % (smp.get('a', 'nothing'),),
                                      dict(wit, sample=smp))
                    for c in ('pi', 'e', 'i', 'j'):
                        if c not in smp:
                            ctx.violation('C13:grader:missing_constant', 'sample lacks %r' % c, dict(wit, sample=smp))
            for r in recorded:
                ctx.count('recorded_function_calls')
                lo, hi = (41, 42) if plain else base_range
                if not (base_range[0] <= r[1] <= base_range[1] or (plain and 41 <= r[1] <= 42)):
                    ctx.violation('C13:grader:numbered:function_saw_foreign_value', 'rec() received %r' % (r[1],), wit)
            ctx.nontrivial(['num', idxs, plain])
        elif mode == 2:
            # dependent chain inside a grader, declared in random order
            variables = make_dag(rng, rng.randint(3, 6))
            if not any(v['kind'] == 'dep' for v in variables):
                continue
            names = [v['name'] for v in variables]
            order = rng.sample(names, len(names))
            sf = {}
            for v in variables:
                sf[v['name']] = v['range'] if v['kind'] == 'indep' else DependentSampler(formula=v['formula'])
            ans = '+'.join(names)
            ucs = {'c0': 7.5, 'kk': -3.0} if 'kk' not in names else {'c0': 7.5}
            override_e = rng.random() < 0.4
            if override_e:
                ucs['e'] = 1.5        # an author constant replacing a default one (suppress_warnings): the author's value is THE value
                ans = ans + '+e'
            try:
                g = FormulaGrader(answers=ans, variables=order, sample_from=sf, user_constants=ucs,
                                  samples=2, suppress_warnings=True, metric_suffixes=True)
            except Exception as exc:  # noqa
                ctx.violation('C13:grader:dag:constructor', repr(exc), {'order': order})
                continue
            out = lib.call(ctx, g, None, '+'.join(reversed(names)) + ('+1.5' if override_e else ''))
            ctx.ev()
            wit = {'declaration_order': order, 'author_constant_e': 1.5 if override_e else None, 'outcome': out.brief(),
                   'variables': [{k: v[k] for k in ('name', 'kind', 'range', 'formula') if k in v} for v in variables]}
            if not out.returned or out.value['ok'] is not True:
                ctx.violation('C13:grader:dag:verdict', 'sum of all variables not graded correct: %r' % (out.brief(),), wit)
            consts = {'c0': 7.5, 'pi': math.pi, 'e': 1.5 if override_e else math.e, 'i': 1j, 'j': 1j}
            for smp_symbols, nsamp, cst, smp_list in TAP['records']:
                if set(names) <= set(smp_symbols):
                    for smp in smp_list:
                        if override_e and smp.get('e') != 1.5:
                            ctx.violation('C13:grader:dag:author_constant_replaced_by_default', 'sample has e = %r, the author set 1.5' % (smp.get('e'),), dict(wit, sample=smp))
                    ctx.count('grader_sample_lists_tapped')
                    check_samples(ctx, 'C13:grader:dag', variables, consts, smp_list, wit, 2)
            ctx.nontrivial(['gdag', wit['variables'], order])
        elif i % 16 == 7:
            # sibling_k counts INPUT BOXES: a string box before the referenced formula box does not shift the numbering
            first = rng.choice(['x+1', '1+x', 'x+2', '2*x'])
            fx = {'x+1': lambda x: x + 1, '1+x': lambda x: x + 1, 'x+2': lambda x: x + 2, '2*x': lambda x: 2 * x}[first]
            from mitxgraders import StringGrader
            layout = rng.choice(['string_first', 'string_between', 'two_strings'])
            fg = lambda **k: FormulaGrader(variables=['x'], sample_from={'x': [21, 22]}, user_functions={'rec2': rec2}, samples=3, **k)
            if layout == 'string_first':
                answers, subs, ref_box = ['cat', 'x+1', 'rec2(sibling_2^2, x)'], [StringGrader(), fg(), fg()], 2
                inputs = ['cat', first, '(%s)^2' % first]
            elif layout == 'string_between':
                answers, subs, ref_box = ['x+1', 'cat', 'rec2(sibling_1^2, x)'], [fg(), StringGrader(), fg()], 1
                inputs = [first, 'cat', '(%s)^2' % first]
            else:
                answers, subs, ref_box = ['cat', 'dog', 'x+1', 'rec2(sibling_3^2, x)'], [StringGrader(), StringGrader(), fg(), fg()], 3
                inputs = ['cat', 'dog', first, '(%s)^2' % first]
            g = ListGrader(answers=answers, subgraders=subs, ordered=True)
            out = lib.call(ctx, g, None, list(inputs))
            ctx.ev()
            ctx.count('sibling_cases')
            ctx.count('sibling_numbering_with_string_boxes')
            wit = {'answers': answers, 'inputs': inputs, 'layout': layout, 'outcome': out.brief()}
            if not out.returned:
                ctx.violation('C13:grader:sibling_numbering:raises', repr(out.brief()), wit)
            elif out.value['input_list'][-1]['ok'] is not True:
                ctx.violation('C13:grader:sibling_numbering:verdict', 'the square of box %d was not accepted: %r' % (ref_box, out.value['input_list'][-1]), wit)
            for r in recorded:
                ctx.count('recorded_function_calls')
                if r[0] == 'rec2' and abs(r[1] - fx(r[2]) ** 2) > 1e-9 * abs(r[1]):
                    ctx.violation('C13:grader:sibling_numbering:inconsistent_sample',
                                  'rec2 saw sibling_%d^2 = %r with x = %r; box %d holds %r' % (ref_box, r[1], r[2], ref_box, first), wit)
            ctx.nontrivial(['sibnum', layout, first])
        elif i % 8 == 3:
            # a sibling input needed only by the DependentSampler of a (numbered or plain) variable of the second box
            first = rng.choice(['x+1', '1+x', 'x+2', '2*x'])
            fx = {'x+1': lambda x: x + 1, '1+x': lambda x: x + 1, 'x+2': lambda x: x + 2, '2*x': lambda x: 2 * x}[first]
            numbered = rng.random() < 0.7
            idx = rng.choice([0, 1, 3, 12, -2])
            nm = 'c_{%d}' % idx if numbered else 'c'
            from mitxgraders import MatrixGrader
            G2 = rng.choice([FormulaGrader, MatrixGrader])      # (a MatrixGrader is a formula grader too: siblings reach it the same way)
            g1 = rng.choice([FormulaGrader, MatrixGrader])(variables=['x'], sample_from={'x': [21, 22]}, samples=3)
            g2 = G2(variables=['x'] + ([] if numbered else ['c']), numbered_vars=['c'] if numbered else [],
                               sample_from={'x': [21, 22], 'c': DependentSampler(formula='sibling_1+1')},
                               user_functions={'rec2': rec2}, samples=3)
            g = ListGrader(answers=['x+1', 'rec2(%s, x)' % nm], subgraders=[g1, g2], ordered=True)
            second = rng.choice(['(%s)+1' % first, '(%s)+2' % first, 'rec2(%s,x)' % nm])
            out = lib.call(ctx, g, None, [first, second])
            ctx.ev()
            ctx.count('sibling_cases')
            ctx.count('sibling_via_dependent_sampler_cases')
            wit = {'inputs': [first, second], 'second_box_variable': nm, 'sampled_as': 'DependentSampler(sibling_1+1)', 'outcome': out.brief()}
            want = [first in ('x+1', '1+x'), not second.endswith('+2')]
            if not out.returned:
                ctx.violation('C13:grader:sibling_sampler:raises', repr(out.brief()), wit)
            else:
                got = [e['ok'] is True for e in out.value['input_list']]
                if got != want:
                    ctx.violation('C13:grader:sibling_sampler:verdict', 'expected %r, got %r' % (want, got), wit)
            for r in recorded:
                ctx.count('recorded_function_calls')
                if r[0] == 'rec2' and abs(r[1] - (fx(r[2]) + 1)) > 1e-9 * abs(r[1]):
                    ctx.violation('C13:grader:sibling_sampler:inconsistent_sample',
                                  'rec2 saw %s = %r with x = %r; sibling_1+1 with sibling_1 = %r gives %r' % (nm, r[1], r[2], first, fx(r[2]) + 1), wit)
            for smp_symbols, nsamp, cst, smp_list in TAP['records']:
                if 'sibling_1' in smp_symbols:
                    ctx.count('grader_sample_lists_tapped')
                    for smp in smp_list:
                        if nm not in smp or 'sibling_1' not in smp or abs(smp['sibling_1'] - fx(smp['x'])) > 1e-9 or abs(smp[nm] - smp['sibling_1'] - 1) > 1e-9:
                            ctx.violation('C13:grader:sibling_sampler:dependent_inconsistent', 'sample %r' % (smp,), wit)
            ctx.nontrivial(['sibsamp', first, second, nm])
        else:
            # sibling formulas in an ordered list: answer 2 is a function of input 1
            from mitxgraders import MatrixGrader
            sub = rng.choice([FormulaGrader, FormulaGrader, MatrixGrader])(variables=['x'], sample_from={'x': [21, 22]}, user_functions={'rec2': rec2}, samples=3)
            g = ListGrader(answers=['x+1', 'rec2(sibling_1^2, x)'], subgraders=sub, ordered=True)
            for rep_first in rng.sample(['x+1', '1+x', 'x+2', '2*x', '', 'x+'], rng.randint(1, 4)):
                # the same list grader is asked again and again: nothing of an earlier submission (valid, empty or malformed) may stay
                del recorded[:]
                TAP['records'] = []
                if rep_first in ('', 'x+'):
                    bad = lib.call(ctx, g, None, [rep_first, 'x^2'])
                    ctx.ev()
                    ctx.count('sibling_bad_first_box')
                    if bad.returned or not lib.err_family(bad.exc).startswith('StudentFacing'):
                        ctx.violation('C13:grader:sibling:bad_first_box', repr(bad.brief()), {'inputs': [rep_first, 'x^2']})
                    continue
                first = rep_first
                sq = {'x+1': 'x^2+2*x+1', '1+x': '(1+x)^2', 'x+2': '(x+2)*(x+2)', '2*x': '4*x^2'}[first]
                second = rng.choice([sq, sq + '+1'])
                out = lib.call(ctx, g, None, [first, second])
                ctx.ev()
                ctx.count('sibling_cases')
                wit = {'inputs': [first, second], 'outcome': out.brief()}
                want = [first in ('x+1', '1+x'), second == sq]
                if not out.returned:
                    ctx.violation('C13:grader:sibling:raises', repr(out.brief()), wit)
                else:
                    got = [e['ok'] is True for e in out.value['input_list']]
                    if got != want:
                        ctx.violation('C13:grader:sibling:verdict', 'expected %r, got %r' % (want, got), wit)
                fx = {'x+1': lambda x: x + 1, '1+x': lambda x: x + 1, 'x+2': lambda x: x + 2, '2*x': lambda x: 2 * x}[first]
                for r in recorded:
                    ctx.count('recorded_function_calls')
                    if r[0] == 'rec2' and abs(r[1] - fx(r[2]) ** 2) > 1e-9 * abs(r[1]):
                        ctx.violation('C13:grader:sibling:inconsistent_sample',
                                      'rec2 saw sibling_1^2 = %r with x = %r; the sibling formula %r gives %r' % (r[1], r[2], first, fx(r[2]) ** 2), wit)
                for smp_symbols, nsamp, cst, smp_list in TAP['records']:
                    if 'sibling_1' in smp_symbols:
                        ctx.count('grader_sample_lists_tapped')
                        for smp in smp_list:
                            if 'sibling_1' not in smp or abs(smp['sibling_1'] - fx(smp['x'])) > 1e-9:
                                ctx.violation('C13:grader:sibling:dependent_inconsistent', 'sample %r' % (smp,), wit)
            ctx.nontrivial(['sib', i])


def run_sum_constants(ctx):
    """Samples of a summation grader carry every default constant, whatever constants OTHER graders chose to delete."""
    from mitxgraders import SumGrader, DependentSampler
    install_tap()
    rng = ctx.rng
    ans = {'lower': '1', 'upper': '3', 'summand': 'n*x', 'summation_variable': 'n'}
    for i in range(ctx.pick(10, 100)):
        deleted = rng.choice(['e', 'pi', 'i', 'j', 'infty'])
        other = lib.call(ctx, lambda: SumGrader(answers=ans, variables=['x'], user_constants={deleted: None}))
        TAP['records'] = []
        g = SumGrader(answers=ans, variables=['x', 'd'], sample_from={'x': [21, 22], 'd': DependentSampler(formula='x+%s' % ('e' if deleted != 'infty' else 'pi'))},
                      samples=2)
        out = lib.call(ctx, g, None, ['1', '3', 'x*n', 'n'])
        ctx.ev()
        ctx.count('sum_constant_cases')
        wit = {'another_grader_deleted': deleted, 'that_construction': other.brief() if not other.returned else 'ok', 'outcome': out.brief()}
        ctx.nontrivial(['sumconst', deleted, i])
        if not out.returned or out.value['ok'] is not True:
            ctx.violation('C13:sum:verdict', 'identical sum not accepted: %r' % (out.brief(),), wit)
        for smp_symbols, nsamp, consts, smp_list in TAP['records']:
            if 'x' not in smp_symbols:
                continue          # (the library also draws an empty symbol list for its function samples)
            ctx.count('grader_sample_lists_tapped')
            for smp in smp_list:
                for c in ('pi', 'e', 'i', 'j', 'infty'):
                    if c not in smp:
                        ctx.violation('C13:sum:missing_constant', 'sample lacks %r after another grader deleted %r' % (c, deleted), dict(wit, sample=smp))


def run(ctx):
    run_direct(ctx)
    run_cycles(ctx)
    run_graders(ctx)
    run_sum_constants(ctx)
