"""
C18 -- StringGrader matches exactly the inputs equal after the configured cleaning.

Oracle: a reference cleaning function written from the statement (below) + re.fullmatch.
Monitor: every StringGrader(...)(None, submission) outcome (grade / message / error class) is
compared with the oracle's prediction for the same configuration.
"""
import re

from vf import lib

RULE = ('all 16 cleaning-flag combinations x expected strings over {a,B,e-acute,I-dot,1,-,.,'
        'space,tab,CR,LF,CRLF,LFCR, interior NBSP} x edits (whitespace inserted/deleted at ends or '
        'inside, case change, one non-space character changed, identity); accept_any/nonempty x '
        'min_length 0-6 x min_words 0-3 x explain_minimums; validation patterns (alternation, '
        'own anchors, optional groups, prefix-only matches) x explain_validation x accept_any. '
        'Non-trivial = cleaning changes at least one of the two strings, or the verdict is '
        '"refused"; distinct by (flags, expect, submission).')
ASSUMPTIONS = ['R11: only U+0020 is stripped by the oracle; submissions whose ends carry other '
               'Unicode whitespace after conversion are excluded from the verdict',
               'runs of >=3 mixed CR/LF are excluded when clean_spaces and strip_all are both off',
               'case folding = str.lower()']

PIECES = ['a', 'B', 'b', 'A', 'é', 'É', 'İ', '1', '-', '.', ' ', ' ', '  ',
          '\t', '\r', '\n', '\r\n', '\n\r', 'x', 'Y', u'\xdf', u'\u03c2', u'\u017f', u'\ufb01', 's']
# letters that compatibility / full case folding would identify with other spellings; lower-casing keeps them apart
FOLD_VARIANTS = [(u'\xdf', 'ss'), (u'\u03c2', u'\u03c3'), (u'\u017f', 's'), (u'\ufb01', 'fi'), (u'\u1e9e', 'ss'), (u'\u0130', 'i')]
WS = [' ', '  ', '\t', '\r', '\n', '\r\n', '\n\r', ' \t ']
# whitespace other than space / tab / line breaks: removed at the ends by strip, an ordinary character anywhere else
END_WS = [u'\xa0', u'\x0c', u'\x0b', u'\u3000', u' \xa0', u'\u2003 ']


def gates(tier):
    return {'clean_calls': 15000, 'clean_accept': 3000, 'clean_reject': 3000,
            'accept_any_calls': 4000, 'minimum_refused': 800, 'pattern_calls': 4000,
            'pattern_refused': 800, 'pattern_partial_match_cases': 200}


def ref_clean(s, case_sensitive, strip, strip_all, clean_spaces):
    out = []
    i = 0
    while i < len(s):
        two = s[i:i + 2]
        if two in ('\r\n', '\n\r'):
            out.append(' ')
            i += 2
        elif s[i] in '\t\r\n':
            out.append(' ')
            i += 1
        else:
            out.append(s[i])
            i += 1
    t = ''.join(out)
    if not case_sensitive:
        t = t.lower()
    if strip:
        t = t.strip()        # "leading and trailing whitespace": every character Python calls whitespace (R11, revised)
    if clean_spaces:
        t = re.sub(' {2,}', ' ', t)
    if strip_all:
        t = t.replace(' ', '')
    return t


def ambiguous(s, flags):
    """Cases the statement leaves open (R11)."""
    if not flags['clean_spaces'] and not flags['strip_all'] and re.search(r'[\r\n]{3,}', s):
        return True   # CRLF/LFCR tokenisation ambiguous
    return False


def rand_string(rng, maxlen=7):
    return ''.join(rng.choice(PIECES) for _ in range(rng.randint(0, maxlen)))


def edit(rng, s):
    """Return (kind, edited string)."""
    kind = rng.choice(['same', 'ws_front', 'ws_back', 'ws_inside', 'ws_delete', 'case', 'char',
                       'ws_swap', 'nbsp_inside', 'random', 'fold_variant'])
    if kind == 'same':
        return kind, s
    if kind == 'fold_variant':
        here = [(a, b) for a, b in FOLD_VARIANTS if a in s]
        if not here:
            if not s:
                return 'same', s
            a, b = rng.choice(FOLD_VARIANTS)
            k = rng.randrange(len(s))
            return kind, s[:k] + (a if rng.random() < 0.5 else b) + s[k + 1:]
        a, b = rng.choice(here)
        return kind, s.replace(a, b, 1)
    if kind == 'ws_front':
        return kind, rng.choice(WS + END_WS) + s
    if kind == 'ws_back':
        return kind, s + rng.choice(WS + END_WS)
    if kind == 'ws_inside':
        if len(s) < 2:
            return 'same', s
        k = rng.randint(1, len(s) - 1)
        return kind, s[:k] + rng.choice(WS) + s[k:]
    if kind == 'ws_delete':
        idx = [i for i, ch in enumerate(s) if ch in ' \t\r\n']
        if not idx:
            return 'same', s
        k = rng.choice(idx)
        return kind, s[:k] + s[k + 1:]
    if kind == 'ws_swap':
        idx = [i for i, ch in enumerate(s) if ch in ' \t\r\n']
        if not idx:
            return 'same', s
        k = rng.choice(idx)
        return kind, s[:k] + rng.choice([' ', '\t', '\n', '\r']) + s[k + 1:]
    if kind == 'case':
        return kind, s.swapcase() if rng.random() < 0.5 else s.upper()
    if kind == 'char':
        idx = [i for i, ch in enumerate(s) if not ch.isspace()]
        if not idx:
            return 'same', s
        k = rng.choice(idx)
        repl = rng.choice([c for c in 'abXY2-.é' if c != s[k]])
        return kind, s[:k] + repl + s[k + 1:]
    if kind == 'nbsp_inside':
        if len(s) < 2:
            return 'same', s
        k = rng.randint(1, len(s) - 1)
        return kind, s[:k] + '\u00a0' + s[k:]
    return kind, rand_string(rng)


def flagsets():
    for m in range(16):
        yield {'case_sensitive': bool(m & 1), 'strip': bool(m & 2),
               'strip_all': bool(m & 4), 'clean_spaces': bool(m & 8)}


def check_cleaning(ctx, flags, expect, kind, sub):
    from mitxgraders import StringGrader
    if ambiguous(expect, flags) or ambiguous(sub, flags):
        ctx.count('skipped_unspecified_whitespace')
        return
    g = StringGrader(answers={'expect': expect, 'msg': 'M!'}, **flags)
    out = lib.call(ctx, g, None, sub)
    ctx.ev()
    ctx.count('clean_calls')
    ce, cs = ref_clean(expect, **flags), ref_clean(sub, **flags)
    want = ce == cs
    wit = {'flags': flags, 'expect': expect, 'submission': sub, 'edit': kind,
           'ref_clean_expect': ce, 'ref_clean_submission': cs, 'outcome': out.brief()}
    fl = ''.join(k[0] if v else '-' for k, v in sorted(flags.items()))
    if not out.returned:
        ctx.violation('C18:clean:raises:' + kind, 'raised %r' % (out.exc,), wit)
        return
    r = out.value
    got = r['grade_decimal'] == 1 and r['ok'] is True
    if got and r['msg'] != 'M!' or (not got and (r['grade_decimal'] != 0 or r['ok'] is not False or r['msg'] != '')):
        ctx.violation('C18:clean:result_form', 'unexpected result %r' % (r,), wit)
    if want and not got:
        ctx.violation('C18:clean:rejects_equal:edit=' + kind, 'cleaned strings equal but graded wrong', wit)
    if got and not want:
        ctx.violation('C18:clean:accepts_unequal:edit=' + kind, 'cleaned strings differ but graded right', wit)
    ctx.count('clean_accept' if got else 'clean_reject')
    if ce != expect or cs != sub:
        ctx.nontrivial(['clean', fl, expect, sub])


def predict_refusal(mode, debug=False):
    return {'err': 'raise', 'msg': 'msg', None: 'silent'}[mode]


def check_refused(ctx, out, mode, text_re, key, wit, wrong_msg=''):
    """A refusal must take the form the explain_* option prescribes."""
    if mode == 'err':
        if out.returned or type(out.exc).__name__ != 'InvalidInput' or not re.search(text_re, str(out.exc)):
            ctx.violation(key + ':err', 'expected InvalidInput, got %r' % (out.brief(),), wit)
        return
    if not out.returned:
        ctx.violation(key + ':' + str(mode), 'expected a zero grade, got %r' % (out.brief(),), wit)
        return
    r = out.value
    if r['grade_decimal'] != 0 or r['ok'] is not False:
        ctx.violation(key + ':' + str(mode) + ':graded', 'refusal expected, got %r' % (r,), wit)
    elif mode == 'msg' and not re.search(text_re, r['msg']):
        ctx.violation(key + ':msg:text', 'message missing: %r' % (r,), wit)
    elif mode is None and lib.strip_debug(r['msg']) != wrong_msg and not ('<pre>MITx Grading Library' in r['msg'] and re.search(text_re, r['msg'])):
        # a silent refusal is an ordinary wrong answer: the grader's OWN wrong_msg (if any) and nothing else
        # (with debug=True the library deliberately attaches the explanation to the silent refusal, before the log)
        ctx.violation(key + ':None:text', 'silent refusal expected (own wrong_msg %r): %r' % (wrong_msg, r), wit)


def check_accept_any(ctx, rng):
    from mitxgraders import StringGrader
    flags = rng.choice(list(flagsets()))
    nonempty = rng.random() < 0.4
    min_length = rng.randint(0, 6)
    min_words = rng.randint(0, 3)
    mode = rng.choice(['err', 'msg', None])
    words = [rng.choice(['a', 'Bc', 'def', '1', 'éx']) for _ in range(rng.randint(0, 4))]
    sub = rng.choice(['', ' ', '  ']).join([''] if not words else []) or rng.choice([' ', '  ', '\t', '\n', ' \r\n ']).join(words)
    if rng.random() < 0.3:
        sub = rng.choice(WS) + sub + rng.choice(WS)
    if rng.random() < 0.1:
        sub = rng.choice(['', ' ', '\t', '  \n'])
    if ambiguous(sub, flags):
        return
    cfg = dict(flags)
    cfg.update({'min_length': min_length, 'min_words': min_words, 'explain_minimums': mode})
    cfg['accept_nonempty' if nonempty else 'accept_any'] = True
    if nonempty and rng.random() < 0.4:
        cfg['accept_any'] = True        # both switches on: accept_nonempty still demands at least one character
    if rng.random() < 0.15:
        cfg['debug'] = True             # the debug log changes nothing about how a refusal is delivered
        ctx.count('debug_cases')
    if rng.random() < 0.4:
        cfg['wrong_msg'] = 'WM%d' % rng.randint(0, 999)
    g = StringGrader(**cfg)
    out = lib.call(ctx, g, None, sub)
    ctx.ev()
    ctx.count('accept_any_calls')
    cs = ref_clean(sub, **flags)
    eff_len = max(min_length, 1) if nonempty else min_length
    ok = len(cs) >= eff_len and len(cs.split()) >= min_words
    wit = {'config': cfg, 'submission': sub, 'ref_clean': cs, 'outcome': out.brief()}
    ctx.nontrivial(['any', cfg, sub])
    if ok:
        if not out.returned or out.value['grade_decimal'] != 1 or out.value['ok'] is not True:
            ctx.violation('C18:accept_any:refuses_sufficient', 'meets the minimums but %r' % (out.brief(),), wit)
    else:
        ctx.count('minimum_refused')
        check_refused(ctx, out, mode, r'too short', 'C18:accept_any:insufficient_not_refused', wit, cfg.get('wrong_msg', ''))


PATTERNS = [
    # (pattern, strings that fully match, strings that do not)
    (r'cat|dog', ['cat', 'dog'], ['catfish', 'cats', 'hotdog', 'dogs', 'ca', '', 'cat dog', 'catdog']),
    (r'(cat|dog)', ['cat', 'dog'], ['catfish', 'hotdog', 'dogcat']),
    (r'^cat$', ['cat'], ['cats', 'acat', 'cat\n'[:3] + 's']),
    (r'ab?c', ['abc', 'ac'], ['abbc', 'abcd', 'xabc', 'a c']),
    (r'[0-9]+', ['1', '42', '007'], ['42a', 'a42', '4 2', '', '4.2']),
    (r'\([0-9]+\)', ['(1)', '(10)'], ['(1))', '((1)', '(a)', '(1) x']),
    (r'a|ab', ['a', 'ab'], ['abc', 'b', 'aa']),
    (r'x*', ['', 'x', 'xxx'], ['xy', 'yx', 'y']),
    (r'(a b|c)', ['a b', 'c'], ['a bc', 'ca b']),
    (r'yes|no|maybe so', ['yes', 'no', 'maybe so'], ['yesno', 'nope', 'maybe', 'maybe sooo']),
    (r'.+\$', ['a$', '12$'], ['a$b', '$']),
    # patterns with upper-case letters: with case_sensitive=False the pattern sees the lower-cased text and is applied as written
    (r'', [''], ['a', 'cat', '0', '  x']),        # the empty pattern matches the empty text only
    (r'YES|NO', ['YES', 'NO'], ['yes', 'No', 'YESNO', 'no']),
    (r'[A-Z][a-z]+', ['Cat', 'Dog'], ['cat', 'CAT', 'cAt', 'Cat7']),
    (r'[a-z]+[0-9]?', ['cat', 'cat7'], ['Cat', 'CAT7', '7cat']),
    (r'Item [A-C]', ['Item A', 'Item C'], ['item a', 'Item D', 'ITEM A']),
    # the author's own group numbers, conditionals and inline flags mean what they mean in the pattern as written
    (r'(\()?[0-9]+(?(1)\))', ['12', '(12)', '(7)'], ['(12', '12)', '()']),
    (r'(a|b)\1', ['aa', 'bb'], ['ab', 'ba', 'a', 'aaa']),
    (r'(x)(y)\2', ['xyy'], ['xyx', 'xy', 'xyyy']),
    (r'(?i)yes|no', ['yes', 'YES', 'No'], ['nope', 'y', 'yesno']),
    (r'(?P<q>["\']).*(?P=q)', ['"a"', "'b c'"], ['"a\'', 'a', '"a']),
]


def check_pattern(ctx, rng):
    from mitxgraders import StringGrader
    pattern, good, bad = rng.choice(PATTERNS)
    mode = rng.choice(['err', 'msg', None])
    accept_any = rng.random() < 0.5
    full = rng.random() < 0.5
    core_ = rng.choice(good if full else bad)
    # default cleaning flags (strip + clean_spaces): surrounding blanks and doubled blanks vanish
    sub = core_
    if rng.random() < 0.4:
        sub = rng.choice(['', ' ', '\t', ' \n']) + sub.replace(' ', rng.choice([' ', '  ', '\t'])) + rng.choice(['', ' ', '\r\n'])
    # mostly the default cleaning flags; sometimes others (the pattern is always applied to the CLEANED submission)
    flags = {'case_sensitive': True, 'strip': True, 'strip_all': False, 'clean_spaces': True}
    if rng.random() < 0.35:
        flags = rng.choice(list(flagsets()))
        if not flags['case_sensitive'] and rng.random() < 0.7:
            sub = sub.upper() if rng.random() < 0.5 else sub.title()
    # the author's own refusal text is shown as written, whatever characters it holds
    inv = rng.choice(['BAD FORMAT', 'BAD FORMAT', 'Enter a set such as {1, 2, 3}', 'use {} or {0} here', '100% wrong %s %d', 'BAD {{x}} {length}', u'n\u00e3o \u2717'])
    cfg = {'validation_pattern': pattern, 'explain_validation': mode, 'invalid_msg': inv}
    cfg.update(flags)
    if rng.random() < 0.15:
        cfg['debug'] = True
        ctx.count('debug_cases')
    expect = rng.choice(good)
    min_mode, min_length = None, 0
    if accept_any:
        cfg['accept_nonempty' if rng.random() < 0.4 else 'accept_any'] = True
        if rng.random() < 0.5:
            # minimums configured as well, announced differently: a pattern mismatch is still refused the explain_validation way
            min_length = rng.randint(1, 6)
            min_mode = rng.choice([m_ for m_ in ('err', 'msg', None) if m_ != mode])
            cfg.update(min_length=min_length, explain_minimums=min_mode)
            ctx.count('pattern_with_minimum_cases')
    else:
        cfg['answers'] = expect
    if rng.random() < 0.4:
        cfg['wrong_msg'] = 'WM%d' % rng.randint(0, 999)
    if ambiguous(sub, flags):
        return
    try:
        g = StringGrader(**cfg)
    except Exception:  # noqa
        return
    out = lib.call(ctx, g, None, sub)
    ctx.ev()
    ctx.count('pattern_calls')
    cs = ref_clean(sub, **flags)
    if not accept_any and re.fullmatch(pattern, ref_clean(expect, **flags)) is None:
        # the author's answer itself does not satisfy the pattern under these flags: a configuration error
        if out.returned or lib.err_family(out.exc) != 'ConfigError':
            ctx.violation('C18:pattern:expect_not_fully_matching_accepted', 'answer %r vs pattern %r under %r: %r' % (expect, pattern, flags, out.brief()),
                          {'config': cfg, 'submission': sub})
        return
    matches = re.fullmatch(pattern, cs) is not None
    partial = (not matches) and re.match(pattern, cs) is not None and re.match(pattern, cs).end() > 0
    if partial:
        ctx.count('pattern_partial_match_cases')
    kind = 'alternation' if '|' in pattern and not pattern.startswith('(') else 'plain'
    wit = {'config': cfg, 'submission': sub, 'ref_clean': cs, 'fullmatch': matches, 'outcome': out.brief()}
    ctx.nontrivial(['pat', cfg, sub])
    if not matches:
        ctx.count('pattern_refused')
        key = 'C18:pattern:partial_match_accepted:' + kind if partial else 'C18:pattern:nonmatch_not_refused'
        check_refused(ctx, out, mode, re.escape(inv), key + (':accept_any' if accept_any else ':answers'), wit, cfg.get('wrong_msg', ''))
        return
    eff_min = max(min_length, 1) if cfg.get('accept_nonempty') else min_length      # accept_nonempty: at least one character
    if accept_any and len(cs) < eff_min:
        ctx.count('minimum_refused')
        check_refused(ctx, out, cfg.get('explain_minimums', 'err'), r'too short', 'C18:pattern:matching_but_too_short', wit, cfg.get('wrong_msg', ''))
        return
    # matches the whole cleaned text: must be graded normally
    want = True if accept_any else (cs == ref_clean(expect, **flags))
    if not out.returned:
        ctx.violation('C18:pattern:match_refused', 'matches entirely but %r' % (out.brief(),), wit)
        return
    got = out.value['grade_decimal'] == 1
    if got != want or (not got and lib.strip_debug(out.value['msg']) != cfg.get('wrong_msg', '')):
        ctx.violation('C18:pattern:match_misgraded', 'expected %s, got %r' % (want, out.value), wit)


def check_expect_pattern(ctx, rng):
    """Without accept_any, an author answer that the pattern does not match entirely is a ConfigError."""
    from mitxgraders import StringGrader
    pattern, good, bad = rng.choice(PATTERNS)
    expect = rng.choice(bad)
    flags = {'case_sensitive': True, 'strip': True, 'strip_all': False, 'clean_spaces': True}
    if re.fullmatch(pattern, ref_clean(expect, **flags)):
        return
    sub = rng.choice(good + bad)
    try:
        g = StringGrader(answers=expect, validation_pattern=pattern)
    except Exception as exc:  # construction may already refuse
        ctx.count('expect_pattern_refused_at_construction')
        if lib.err_family(exc) != 'ConfigError':
            ctx.violation('C18:pattern:expect_mismatch_error_class', repr(exc), {'pattern': pattern, 'expect': expect})
        return
    out = lib.call(ctx, g, None, sub)
    ctx.ev()
    ctx.count('expect_pattern_calls')
    partial = re.match(pattern, ref_clean(expect, **flags)) is not None
    if out.returned or lib.err_family(out.exc) != 'ConfigError':
        ctx.violation('C18:pattern:expect_not_fully_matching_accepted' + (':partial' if partial else ''),
                      'answer %r does not match %r entirely, yet %r' % (expect, pattern, out.brief()),
                      {'pattern': pattern, 'expect': expect, 'submission': sub})


def run(ctx):
    rng = ctx.rng
    fs = list(flagsets())
    n = ctx.n(48000, 800000)
    for i in range(n):
        flags = fs[i % 16]
        expect = rand_string(rng)
        kind, sub = edit(rng, expect)
        check_cleaning(ctx, flags, expect, kind, sub)
        if i < 3:
            ctx.sample({'flags': flags, 'expect': expect, 'submission': sub, 'edit': kind})
    ctx.subspace('16 cleaning-flag combinations (each with %d generated pairs)' % (n // 16), 16, True)
    for i in range(ctx.n(16000, 200000)):
        check_accept_any(ctx, rng)
    for i in range(ctx.n(16000, 200000)):
        check_pattern(ctx, rng)
    for i in range(ctx.n(1600, 20000)):
        check_expect_pattern(ctx, rng)
