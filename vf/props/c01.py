"""
C01 -- every grader call returns a well-formed, self-consistent edX result.

Oracle: a structural invariant over every *returned* value (no model): exact key sets, one entry
per input, grade a real number in [0,1], msg a str, ok consistent with the grade (unless the
author pinned it), and -- made observable with canaries -- no debug material in any message
unless debug=True (positive control: with debug=True the version marker must be present).
"""
import numbers

from vf import lib
from vf import gen_graders as GG

RULE = ('configuration grammar over String, Formula, Numerical, Matrix, SingleList (nested), Interval, Sum and '
        'List graders (ordered/unordered, subgrader lists, groupings, several answer lists): 1-3 alternatives '
        'with credits {0,.1,1/3,.5,.7,.99,1}, messages incl. multi-line, pinned ok, expect tuples, wrong_msg, '
        'comparers (equality, LinearComparer, MatrixEntryComparer flat/proportional, congruence, between), '
        'partial_credit, every built-in schedule x attempts {1,2,3,7,50}, debug on/off; inputs right / partly '
        'right / wrong / malformed / empty / unicode garbage, list inputs permuted. Non-trivial = a returned '
        'result with a partial grade, a message, attempt credit < 1 or debug on; distinct by (config, input, attempt).')
ASSUMPTIONS = ['R1: SumGrader returns the short form for any number of inputs',
               'R2: ok may differ from the grade only for entries that can have earned an answer with an explicit ok and credit 1']

DEBUG_MARKERS = ['MITx Grading Library Version', 'Running on edX using python', 'Student Response', 'Evaluation Data for Sample',
                 'Comparison Data for All', 'Comparer Function', 'Summation Data for Sample', 'Expect value inferred']


def gates(tier):
    return {'calls': 40000, 'returned_results': 25000, 'raised': 500, 'long_form_results': 1200, 'entries_checked': 8000,
            'partial_grades': 800, 'attempt_credit_calls': 1500, 'debug_on_results': 800, 'debug_off_results': 4000,
            'class:StringGrader': 300, 'class:FormulaGrader': 300, 'class:NumericalGrader': 300, 'class:MatrixGrader': 300,
            'class:SingleListGrader': 300, 'class:IntervalGrader': 300, 'class:SumGrader': 200, 'class:ListGrader': 800, 'shared_debug_calls': 800, 'registered_defaults_calls': 400, 'random_option_combinations': 1500, 'registered_debug_level_calls': 100}


def has_pin(desc):
    for a in desc.get('answers', []) if isinstance(desc.get('answers'), (list, tuple)) else []:
        if isinstance(a, dict) and 'ok' in a:
            return True
    return False


def check_entry(ctx, key, e, pinned, wit, where):
    if not isinstance(e, dict) or set(e) != {'ok', 'grade_decimal', 'msg'}:
        ctx.violation(key + ':keys', '%s has keys %r' % (where, sorted(e) if isinstance(e, dict) else type(e)), wit)
        return
    g = e['grade_decimal']
    ctx.count('entries_checked')
    if isinstance(g, bool) or not isinstance(g, numbers.Real) or g != g:
        ctx.violation(key + ':grade_type', '%s grade_decimal %r (%s)' % (where, g, type(g).__name__), wit)
        return
    if g < 0 or g > 1:
        ctx.violation(key + ':grade_range', '%s grade_decimal %r outside [0,1]' % (where, g), wit)
    if not isinstance(e['msg'], str):
        ctx.violation(key + ':msg_type', '%s msg %r' % (where, e['msg']), wit)
    ok = e['ok']
    if not (ok is True or ok is False or ok == 'partial'):
        ctx.violation(key + ':ok_value', '%s ok %r' % (where, ok), wit)
        return
    want = True if g == 1 else (False if g == 0 else 'partial')
    if 0 < g < 1:
        ctx.count('partial_grades')
    if ok != want or (isinstance(ok, bool) != isinstance(want, bool)):
        if pinned and g == 1:
            ctx.count('pinned_ok_exempt')
        else:
            ctx.violation(key + ':ok_disagrees_with_grade:' + ('zero_grade' if g == 0 else 'full' if g == 1 else 'partial'),
                          '%s grade %r but ok=%r' % (where, g, ok), wit)


def check_result(ctx, case, res, inp, debug, wit):
    cls = case['cls']
    key = 'C01:' + cls
    pinned = has_pin(case['desc'])
    long_form = cls == 'ListGrader'
    msgs = []
    if long_form:
        ctx.count('long_form_results')
        if not isinstance(res, dict) or set(res) != {'overall_message', 'input_list'}:
            ctx.violation(key + ':long_form_keys', 'keys %r' % (sorted(res) if isinstance(res, dict) else type(res)), wit)
            return
        if not isinstance(res['overall_message'], str):
            ctx.violation(key + ':overall_message_type', repr(res['overall_message']), wit)
            return
        if not isinstance(res['input_list'], list) or len(res['input_list']) != len(inp):
            ctx.violation(key + ':entry_count', '%d inputs, %r entries' % (len(inp), len(res['input_list']) if isinstance(res['input_list'], list) else None), wit)
            return
        for i, e in enumerate(res['input_list']):
            check_entry(ctx, key, e, pinned, wit, 'entry %d' % i)
            if isinstance(e, dict) and isinstance(e.get('msg'), str):
                msgs.append(e['msg'])
        msgs.append(res['overall_message'])
        top = res['overall_message']
    else:
        if isinstance(res, dict) and 'input_list' in res:
            ctx.violation(key + ':long_form_for_item_grader', 'item grader returned the list form', wit)
            return
        check_entry(ctx, key, res, pinned, wit, 'result')
        if not isinstance(res, dict) or not isinstance(res.get('msg'), str):
            return
        msgs.append(res['msg'])
        top = res['msg']
    # debug material
    if debug:
        ctx.count('debug_on_results')
        if DEBUG_MARKERS[0] not in top:
            ctx.violation(key + ':debug_log_missing', 'debug=True but the log is not in the message', wit)
    else:
        ctx.count('debug_off_results')
        for m in msgs:
            leaks = [k for k in DEBUG_MARKERS if k in m]
            if GG.CANARY_ANS in m and GG.CANARY_ANS not in str(inp):
                leaks.append('author answer literal ' + GG.CANARY_ANS)
            if repr(GG.CANARY_SAMPLE)[:9] in m:
                leaks.append('sampled value ' + repr(GG.CANARY_SAMPLE))
            if GG.CANARY_VAR in m and GG.CANARY_VAR not in str(inp):
                leaks.append('instructor variable name')
            if leaks:
                ctx.violation(key + ':debug_leak', 'debug=False but message contains %r' % (leaks,), wit)
                break


def schedules():
    from mitxgraders import LinearCredit, GeometricCredit, ReciprocalCredit
    return [('none', None), ('Linear', LinearCredit()), ('Linear(min=0)', LinearCredit(minimum_credit=0, decrease_credit_steps=2)),
            ('Geometric', GeometricCredit()), ('Geometric(0.1)', GeometricCredit(factor=0.1)), ('Reciprocal', ReciprocalCredit()),
            ('author', lambda n: 1 if n < 3 else 0.35)]


def inputs_for(rng, case, k):
    pools = [('good', case['good']), ('partial', case['partial']), ('wrong', case['wrong'])]
    out = []
    n = case['ninputs']
    for _ in range(k):
        r = rng.random()
        if r < 0.6:
            kind, pool = rng.choice([p for p in pools if p[1]])
            inp = rng.choice(pool)
            if isinstance(inp, list):
                inp = list(inp)
                if rng.random() < 0.4:
                    rng.shuffle(inp)
                if rng.random() < 0.2:
                    inp[rng.randrange(len(inp))] = rng.choice(GG.GARBAGE)
                if rng.random() < 0.08:
                    # a wrong number of input boxes: refused, or graded with exactly one entry per submitted input
                    if rng.random() < 0.5:
                        inp.append(rng.choice(['cat', '1', 'x']))
                    elif len(inp) > 1:
                        inp.pop()
        else:
            kind = 'garbage'
            if n is None or (case['cls'] == 'SumGrader' and n == 1 and rng.random() < 0.5):
                inp = rng.choice(GG.GARBAGE)
            else:
                inp = [rng.choice(GG.GARBAGE + ['cat', '1']) for _ in range(n)]
        out.append((kind, inp))
    return out


def run_shared_debug(ctx):
    """debug=True on one grader must not leak into other graders that share a subgrader object with it."""
    import mitxgraders as M
    rng = ctx.rng
    for i in range(ctx.n(320, 4000)):
        kind = rng.choice(['string', 'formula', 'nested'])
        if kind == 'string':
            sub = M.StringGrader()
            sub_call = ('cat', 'cat')
        elif kind == 'formula':
            sub = M.FormulaGrader(variables=['x'], sample_from={'x': lib.Scripted(values=[GG.CANARY_SAMPLE] * 5)})
            sub_call = ('x+1', 'x+1')
        else:
            sub = M.ListGrader(subgraders=M.StringGrader(), ordered=True)
            sub_call = None
        if kind == 'nested':
            dbg = M.ListGrader(answers=[['a', 'b'], ['c', 'd']], subgraders=sub, grouping=[1, 1, 2, 2], debug=True)
            plain = M.ListGrader(answers=[['a', 'b'], ['c', 'd']], subgraders=sub, grouping=[1, 1, 2, 2])
            dbg_in, plain_in = ['a', 'b', 'c', 'd'], ['a', 'b', 'c', 'x']
        else:
            a = ['cat', 'dog'] if kind == 'string' else ['x+1', 'x^2']
            dbg = M.ListGrader(answers=a, subgraders=sub, debug=True)
            plain = M.ListGrader(answers=a, subgraders=sub)
            dbg_in = plain_in = list(a)
        order = ['dbg', 'plain', 'sub', 'dbg', 'sub', 'plain']
        rng.shuffle(order)
        history = []
        for who in order:
            if who == 'sub' and sub_call is None:
                continue
            if who == 'dbg':
                out = lib.call(ctx, dbg, None, list(dbg_in))
                debug = True
            elif who == 'plain':
                out = lib.call(ctx, plain, None, list(plain_in))
                debug = False
            else:
                out = lib.call(ctx, sub, sub_call[0], sub_call[1])
                debug = False
            ctx.ev()
            ctx.count('calls')
            ctx.count('shared_debug_calls')
            history.append(who)
            if not out.returned:
                ctx.count('raised')
                continue
            ctx.count('returned_results')
            case = {'cls': 'ListGrader' if who != 'sub' else type(sub).__name__, 'desc': {'class': kind, 'shared_subgrader': True}}
            inp = dbg_in if who == 'dbg' else plain_in if who == 'plain' else [sub_call[1]]
            check_result(ctx, case, out.value, inp, debug,
                         {'scenario': 'subgrader object shared between a debug=True list, a plain list and standalone use',
                          'kind': kind, 'history': list(history), 'outcome': out.brief()})
        ctx.nontrivial(['shared_debug', kind, order])


def run_registered_defaults(ctx):
    """Registered class defaults (plugins) + one debug=True grader: later graders of the class stay without a debug log."""
    import mitxgraders as M
    rng = ctx.rng
    plans = [
        (M.StringGrader, {'wrong_msg': 'registered wrong_msg'}, lambda **k: M.StringGrader(answers='cat', **k), ['cat', 'dog']),
        (M.FormulaGrader, {'tolerance': '1%'}, lambda **k: M.FormulaGrader(answers='x+1', variables=['x'], **k), ['x+1', '2*x']),
        (M.NumericalGrader, {'tolerance': 0.5}, lambda **k: M.NumericalGrader(answers='3', **k), ['3', '9']),
        (M.SingleListGrader, {'ordered': True}, lambda **k: M.SingleListGrader(answers=['a', 'b'], subgrader=M.StringGrader(), **k), ['a,b', 'b,a']),
        (M.ListGrader, {'partial_credit': False}, lambda **k: M.ListGrader(answers=['a', 'b'], subgraders=M.StringGrader(), **k), [['a', 'b'], ['a', 'x']]),
    ]
    for i in range(ctx.n(160, 1600)):
        cls, defaults, make, inputs = plans[i % len(plans)]
        cls.register_defaults(dict(defaults))
        try:
            order = rng.sample(['debug', 'plain', 'plain', 'debug_attempt'], rng.randint(2, 4))
            history = []
            for who in order:
                kw = {'debug': True} if who.startswith('debug') else {}
                g = make(**kw)
                for inp in inputs:
                    out = lib.call(ctx, g, None, list(inp) if isinstance(inp, list) else inp)
                    ctx.ev()
                    ctx.count('calls')
                    ctx.count('registered_defaults_calls')
                    history.append(who)
                    if not out.returned:
                        ctx.count('raised')
                        continue
                    ctx.count('returned_results')
                    check_result(ctx, {'cls': cls.__name__, 'desc': {'class': cls.__name__, 'registered_defaults': defaults}}, out.value,
                                 inp if isinstance(inp, list) else [inp], bool(kw),
                                 {'scenario': 'class defaults registered; graders built with and without debug=True in turn',
                                  'registered_defaults': defaults, 'history': list(history), 'outcome': out.brief()})
        finally:
            cls.clear_registered_defaults()
        if cls.default_values is not None:
            ctx.violation('C01:registered_defaults_not_cleared', repr(cls.default_values), {'class': cls.__name__})
        ctx.nontrivial(['registered', cls.__name__, order])


def run_registered_debug_levels(ctx):
    """debug switched through registered class defaults (plugins/defaults_sample.py): the value registered for the more derived
    class is the one in force, a later registration on one class overwrites the earlier one -- a result carries the debug log
    exactly when the debug value so determined is on."""
    import mitxgraders as M
    from mitxgraders.baseclasses import ItemGrader, AbstractGrader
    rng = ctx.rng
    for i in range(ctx.n(60, 600)):
        scenario = rng.choice(['two_levels', 'two_levels', 'repeated'])
        sup = rng.choice([ItemGrader, AbstractGrader])
        first = rng.random() < 0.5
        try:
            if scenario == 'two_levels':
                regs = [(sup, {'debug': True}), (M.StringGrader, {'debug': False})]
                if rng.random() < 0.5:
                    regs.reverse()
                expect = {'StringGrader': False, 'FormulaGrader': True}
            else:
                regs = [(M.StringGrader, {'debug': first, 'wrong_msg': 'w'}), (M.StringGrader, {'debug': not first})]
                expect = {'StringGrader': not first, 'FormulaGrader': False}
            for cls, d in regs:
                cls.register_defaults(d)
            for name, g, inputs in (('StringGrader', M.StringGrader(answers='cat'), ['cat', 'dog']),
                                    ('FormulaGrader', M.FormulaGrader(answers='x+1', variables=['x']), ['x+1', '2*x'])):
                for inp in inputs:
                    out = lib.call(ctx, g, None, inp)
                    ctx.ev()
                    ctx.count('calls')
                    ctx.count('registered_debug_level_calls')
                    if not out.returned:
                        ctx.count('raised')
                        ctx.violation('C01:registered_debug_levels:raises', repr(out.exc)[:200], {'class': name, 'registrations': [(c.__name__, d) for c, d in regs]})
                        continue
                    ctx.count('returned_results')
                    check_result(ctx, {'cls': name, 'desc': {'class': name, 'registrations': [(c.__name__, d) for c, d in regs]}}, out.value, [inp], expect[name],
                                 {'scenario': 'debug registered as a class default: ' + scenario, 'registrations': [(c.__name__, d) for c, d in regs],
                                  'debug_in_force_for_' + name: expect[name], 'outcome': out.brief()})
        finally:
            for cls in (M.StringGrader, ItemGrader, AbstractGrader):
                cls.clear_registered_defaults()
        ctx.nontrivial(['registered_debug', scenario, sup.__name__, first])


def run(ctx):
    run_shared_debug(ctx)
    run_registered_defaults(ctx)
    run_registered_debug_levels(ctx)
    rng = ctx.rng
    F = GG.Factory(rng)
    scheds = schedules()
    for i in range(ctx.n(12000, 200000)):
        case = F.any() if i % 4 else F.random_config()
        ctx.count('class:' + case['cls'])
        debug = rng.random() < 0.25
        sname, sched = rng.choice(scheds)
        ov = {'debug': debug}
        if sched is not None:
            ov['attempt_based_credit'] = sched
            ov['attempt_based_credit_msg'] = rng.random() < 0.7
        try:
            g = case['make'](**ov)
        except Exception as exc:  # noqa
            if case.get('random_config'):
                ctx.count('random_option_combinations_rejected')      # a cross-option rule refused the combination: nothing to grade
                continue
            ctx.inconclusive_because('harness: generated configuration rejected: %r %r' % (case['desc'], exc))
            return
        if case.get('random_config'):
            ctx.count('random_option_combinations')
        for kind, inp in inputs_for(rng, case, ctx.pick(6, 10)):
            attempt = rng.choice([1, 2, 3, 7, 50, 0, -2])
            kwargs = {'attempt': attempt} if sched is not None else {}
            expect = None
            if case.get('needs_expect'):
                expect = 'cat'
            ctx.seed_case(i, repr(inp), attempt)
            out = lib.call(ctx, g, expect, inp, **kwargs)
            ctx.ev()
            ctx.count('calls')
            if sched is not None:
                ctx.count('attempt_credit_calls')
            wit = {'grader': case['desc'], 'debug': debug, 'schedule': sname, 'attempt': attempt if sched is not None else None,
                   'input': inp, 'input_kind': kind, 'outcome': out.brief()}
            if out.kind == 'hang':
                ctx.violation('C01:%s:hang' % case['cls'], 'call did not terminate', wit)
                continue
            if not out.returned:
                ctx.count('raised')
                continue
            ctx.count('returned_results')
            check_result(ctx, case, out.value, inp if isinstance(inp, list) else [inp], debug, wit)
            r = out.value
            if debug or sched is not None or (isinstance(r, dict) and (r.get('msg') or 0 < r.get('grade_decimal', 0) < 1)) or 'input_list' in r:
                ctx.nontrivial(wit)
        if i < 3:
            ctx.sample({'grader': case['desc'], 'debug': debug, 'schedule': sname})
