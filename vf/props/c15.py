"""
C15 -- built-in functions and constants agree with their mathematical definitions.

Oracle: textbook definitions computed with math / cmath (forward functions), round-trip
identities f(f_inverse(z)) = z plus "real in -> real out inside a documented principal range"
for inverse functions (no branch convention imposed), numpy on plain arrays for matrix
functions.  Monitor: every evaluator('f(a,...)', {a: value,...}, table) outcome, including
recorded warnings and nan scans; outside the domain / wrong count / wrong shape only a
student-facing error is acceptable.
"""
import cmath
import math

import numpy as np

from vf import lib

RULE = ('every entry of the Formula/Numerical and Matrix default function tables (factorial/fact '
        'excluded: scipy absent) x real grids, random complex points, +-1e-9 neighbourhoods of '
        'branch cuts and poles, magnitudes 1e-300..1e300 x arities 1..3 x argument shapes {scalar, '
        'vector, square, non-square, tensor}; arctan2 on all quadrants and axes; kronecker; min/max; '
        'matrix functions on random real/complex arrays; constants. Non-trivial = a call whose '
        'outcome was compared with a reference value or a required error; distinct by (function, '
        'argument class, point).')
ASSUMPTIONS = ['R9: real arguments outside the real domain of functions not documented "with complex '
               'continuation" may give the continuation or a student-facing error',
               'values compared at rel 1e-9 (+1e-12 abs); round trips at rel 1e-7',
               'one-element arrays passed to scalar functions are outside the quantifier (observation only)',
               'trig arguments limited to |x| <= 1e6 for value comparison (argument reduction conditioning)']

PI = math.pi


def gates(tier):
    return {'forward_value_checks': 6000, 'inverse_roundtrips': 3000, 'principal_range_checks': 1000,
            'pole_or_domain_errors': 150, 'arity_errors': 100, 'shape_errors': 300,
            'matrix_function_checks': 600, 'arctan2_checks': 150, 'saturating_checks': 400, 'int_argument_checks': 1000, 'domain_checks_after_infinity_comparisons': 150, 'constants': 4, 'functions_covered': 35 * 16, 'exact_value_checks': 80, 'elementwise_array_function_checks': 20}


def _c(z):
    return complex(z)


def _rc(freal, fcomplex):
    def f(z):
        if isinstance(z, complex):
            return fcomplex(z)
        return freal(z)
    return f


def _sqrt(x):
    if isinstance(x, complex) or x < 0:
        return cmath.sqrt(x)
    return math.sqrt(x)


def _log(base=None):
    def f(x):
        if isinstance(x, complex) or x < 0:
            v = cmath.log(x)
        else:
            v = math.log(x)
        return v / math.log(base) if base else v
    return f


FORWARD = {
    'sin': _rc(math.sin, cmath.sin), 'cos': _rc(math.cos, cmath.cos), 'tan': _rc(math.tan, cmath.tan),
    'sec': lambda z: 1 / FORWARD['cos'](z), 'csc': lambda z: 1 / FORWARD['sin'](z),
    'cot': lambda z: FORWARD['cos'](z) / FORWARD['sin'](z),
    'sinh': _rc(math.sinh, cmath.sinh), 'cosh': _rc(math.cosh, cmath.cosh), 'tanh': _rc(math.tanh, cmath.tanh),
    'sech': lambda z: 1 / FORWARD['cosh'](z), 'csch': lambda z: 1 / FORWARD['sinh'](z),
    'coth': lambda z: FORWARD['cosh'](z) / FORWARD['sinh'](z),
    'exp': _rc(math.exp, cmath.exp), 'sqrt': _sqrt, 'ln': _log(), 'log10': _log(10), 'log2': _log(2),
    'abs': abs,
    're': lambda z: z.real if isinstance(z, complex) else float(z),
    'im': lambda z: z.imag if isinstance(z, complex) else 0.0,
    'conj': lambda z: z.conjugate() if isinstance(z, complex) else z,
    'floor': lambda x: float(math.floor(x)), 'ceil': lambda x: float(math.ceil(x)),
}
TRIG = ('sin', 'cos', 'tan', 'sec', 'csc', 'cot')
REAL_ONLY = ('floor', 'ceil')

# inverse -> (forward name, real domain predicate, acceptable real ranges)
INVERSE = {
    'arcsin': ('sin', lambda x: -1 <= x <= 1, [(-PI / 2, PI / 2)]),
    'arccos': ('cos', lambda x: -1 <= x <= 1, [(0, PI)]),
    'arctan': ('tan', lambda x: True, [(-PI / 2, PI / 2)]),
    'arcsec': ('sec', lambda x: abs(x) >= 1, [(0, PI)]),
    'arccsc': ('csc', lambda x: abs(x) >= 1, [(-PI / 2, PI / 2)]),
    'arccot': ('cot', lambda x: True, [(-PI / 2, PI / 2), (0, PI)]),
    'arcsinh': ('sinh', lambda x: True, [(-1e9, 1e9)]),
    'arccosh': ('cosh', lambda x: x >= 1, [(0, 1e9)]),
    'arctanh': ('tanh', lambda x: abs(x) < 1, [(-1e9, 1e9)]),
    'arcsech': ('sech', lambda x: 0 < x <= 1, [(0, 1e9)]),
    'arccsch': ('csch', lambda x: x != 0, [(-1e9, 1e9)]),
    'arccoth': ('coth', lambda x: abs(x) > 1, [(-1e9, 1e9)]),
}
# documented "with complex continuation": a value is required for every real argument
CONTINUED = ('sqrt', 'ln', 'log10', 'log2', 'exp', 'arcsin', 'arccos', 'arctanh')

REAL_GRID = [0.0, -1e3, -37.5, -10.0, -3.0, -2.0, -1.5, -1.0, -0.75, -0.5, -0.1, -1e-3, -1e-9,
             1e-9, 1e-3, 0.1, 0.25, 0.5, 0.75, 1.0, 1.5, 2.0, 2.5, 3.0, 7.0, 10.0, 37.5, 1e3]
EXTREME = [1e-300, -1e-300, 1e-150, 1e150, -1e150, 1e300, -1e300, 1e6, -1e6]
POLES = {
    'cot': [0.0], 'csc': [0.0], 'coth': [0.0], 'csch': [0.0], 'ln': [0.0], 'log10': [0.0], 'log2': [0.0],
    'arctanh': [1.0, -1.0], 'arcsec': [0.0], 'arccsc': [0.0], 'arcsech': [0.0], 'arccsch': [0.0],
    'arccoth': [0.0, 1.0, -1.0], 'exp': [1000.0, 1e300], 'sinh': [1000.0], 'cosh': [-1000.0],
}


def student_facing(exc):
    from mitxgraders.exceptions import StudentFacingError
    return isinstance(exc, StudentFacingError)


def call_fn(ctx, table, name, args):
    from mitxgraders.helpers.calc import evaluator
    variables = {'a%d' % i: v for i, v in enumerate(args)}
    s = '%s(%s)' % (name, ','.join('a%d' % i for i in range(len(args))))
    return lib.call(ctx, lambda: evaluator(s, variables, table, {})[0])


def has_nan(v):
    try:
        return bool(np.any(np.isnan(np.asarray(v, dtype=complex))))
    except (TypeError, ValueError):
        return False


def hygiene(ctx, name, args, out, wit):
    """nan, warnings, foreign exceptions are never acceptable."""
    numeric = [w for w in out.warnings if w[0] in ('RuntimeWarning', 'ComplexWarning')]
    if numeric:
        ctx.violation('C15:warning:' + name, 'warnings %r' % (numeric[:2],), wit)
    if out.kind == 'hang':
        ctx.violation('C15:hang:' + name, 'did not terminate', wit)
        return False
    if out.returned and has_nan(out.value):
        ctx.violation('C15:nan:' + name, 'returned nan', wit)
        return False
    if not out.returned and not student_facing(out.exc):
        ctx.violation('C15:foreign_exception:%s:%s' % (name, type(out.exc).__name__), 'raised %r' % (out.exc,), wit)
        return False
    return True


def close(a, b, rel=1e-9, abs_=1e-12):
    a, b = np.asarray(a, dtype=complex), np.asarray(b, dtype=complex)
    if a.shape != b.shape:
        return False
    return bool(np.all(np.abs(a - b) <= abs_ + rel * np.maximum(np.abs(a), np.abs(b))))


def argclass(z):
    if isinstance(z, complex):
        return 'complex'
    if abs(z) >= 1e100 or (z != 0 and abs(z) <= 1e-100):
        return 'extreme'
    return 'real'


def check_forward(ctx, table, name, z):
    out = call_fn(ctx, table, name, [z])
    ctx.ev()
    wit = {'function': name, 'argument': z, 'outcome': out.brief()}
    if not hygiene(ctx, name, [z], out, wit):
        return
    try:
        ref = FORWARD[name](z)
        if isinstance(ref, complex) and (cmath.isinf(ref) or cmath.isnan(ref)) or \
                (isinstance(ref, float) and (math.isinf(ref) or math.isnan(ref))):
            raise OverflowError
    except (ZeroDivisionError, OverflowError, ValueError):
        ctx.count('pole_or_domain_errors')
        # outside the domain (pole / overflow): an error is required, or a finite huge value
        # when floating point happens to miss the pole; never nan (checked above)
        if out.returned and not np.all(np.isfinite(np.asarray(out.value, dtype=complex))):
            ctx.violation('C15:inf:' + name, 'returned %r' % (out.value,), wit)
        return
    if not out.returned:
        if name in TRIG + ('sinh', 'cosh', 'tanh', 'sech', 'csch', 'coth', 'exp') and abs(ref) > 1e300:
            return
        ctx.violation('C15:error_in_domain:%s:%s' % (name, argclass(z)),
                      '%s(%r) raised %r; definition gives %r' % (name, z, out.exc, ref), wit)
        return
    got = out.value
    ctx.count('forward_value_checks')
    ctx.nontrivial(['fwd', name, repr(z)])
    if isinstance(z, float) and not isinstance(ref, complex) and isinstance(got, complex):
        ctx.violation('C15:complex_for_real:' + name, '%s(%r) returned complex %r' % (name, z, got), wit)
        return
    if not close(got, ref):
        ctx.violation('C15:value:%s:%s' % (name, argclass(z)), '%s(%r) = %r, definition gives %r' % (name, z, got, ref), wit)


def check_inverse(ctx, table, name, z):
    fwd, in_domain, ranges = INVERSE[name]
    out = call_fn(ctx, table, name, [z])
    ctx.ev()
    wit = {'function': name, 'argument': z, 'outcome': out.brief()}
    if not hygiene(ctx, name, [z], out, wit):
        return
    real_arg = not isinstance(z, complex)
    if not out.returned:
        ctx.count('pole_or_domain_errors')
        if real_arg and in_domain(z) and z not in POLES.get(name, []):
            ctx.violation('C15:error_in_domain:%s:%s' % (name, argclass(z)), '%s(%r) raised %r' % (name, z, out.exc), wit)
        elif real_arg and name in CONTINUED and z not in POLES.get(name, []):
            ctx.violation('C15:no_continuation:' + name, '%s(%r) raised %r although documented with complex continuation'
                          % (name, z, out.exc), wit)
        elif not real_arg and z not in (0j, 1 + 0j, -1 + 0j):
            ctx.violation('C15:error_in_domain:%s:complex' % name, '%s(%r) raised %r' % (name, z, out.exc), wit)
        return
    w = out.value
    # (1) round trip with the reference forward function
    if abs(z) <= 1e3 and abs(z) >= 1e-3:
        try:
            back = FORWARD[fwd](complex(w) if isinstance(w, complex) else float(w))
            ctx.count('inverse_roundtrips')
            ctx.nontrivial(['inv', name, repr(z)])
            if not close(back, z, rel=1e-7, abs_=1e-9):
                ctx.violation('C15:roundtrip:%s:%s' % (name, argclass(z)),
                              '%s(%s(%r)) = %r (inverse returned %r)' % (fwd, name, z, back, w), wit)
                return
        except (ZeroDivisionError, OverflowError, ValueError):
            ctx.count('roundtrip_not_evaluable')
    # (2) real in-domain argument -> real value in a documented principal range
    if real_arg and in_domain(z):
        ctx.count('principal_range_checks')
        if isinstance(w, complex):
            ctx.violation('C15:complex_for_real:' + name, '%s(%r) returned complex %r' % (name, z, w), wit)
        elif not any(lo - 1e-12 <= w <= hi + 1e-12 for lo, hi in ranges):
            ctx.violation('C15:principal_range:' + name, '%s(%r) = %r outside %r' % (name, z, w, ranges), wit)


def complex_points(rng, n):
    pts = []
    for _ in range(n):
        r = 10 ** rng.uniform(-2, 1.5)
        th = rng.uniform(-PI, PI)
        pts.append(complex(r * math.cos(th), r * math.sin(th)))
    # neighbourhoods of the branch cuts on the real axis (never exactly on them)
    for x in (-2.0, -1.0, -0.5, 0.5, 1.0, 2.0, 1.5, -1.5):
        for eps in (1e-9, -1e-9):
            pts.append(complex(x, eps))
    for y in (-2.0, -1.0, -0.5, 0.5, 1.0, 2.0):
        for eps in (1e-9, -1e-9):
            pts.append(complex(eps, y))
    return pts


def run_scalar(ctx, table, tag):
    rng = ctx.rng
    names = sorted(set(FORWARD) | set(INVERSE))
    idx = 0
    covered = set()
    cpts_fixed = complex_points(rng, 0)
    for name in names:
        if name not in table:
            ctx.inconclusive_because('documented function %r missing from the %s table' % (name, tag))
            continue
        idx += 1
        covered.add(name)
        # every shard: its own random points; the fixed grids are done by one shard per function
        pts = [rng.uniform(-5, 5) for _ in range(ctx.pick(30, 5000))]
        pts += [rng.choice([-1, 1]) * 10 ** rng.uniform(-6, 3) for _ in range(ctx.pick(20, 3000))]
        fixed = ctx.mine(idx)
        if fixed:
            pts += list(REAL_GRID) + list(POLES.get(name, []))
            if name not in TRIG:
                pts += EXTREME
            else:
                pts += [1e-300, -1e-300, 1e6, -1e6, PI / 2, PI, -PI / 2]
        if name not in REAL_ONLY:
            pts += complex_points(rng, ctx.pick(40, 2000))[:ctx.pick(40, 2000)]
            if fixed:
                pts += cpts_fixed
        for z in pts:
            if name in FORWARD:
                if name in REAL_ONLY and isinstance(z, complex):
                    continue
                check_forward(ctx, table, name, z)
            else:
                check_inverse(ctx, table, name, z)
        if not fixed:
            continue
        # complex input to real-only functions: an error, never a value
        if name in REAL_ONLY:
            out = call_fn(ctx, table, name, [1.5 + 2j])
            ctx.ev()
            wit = {'function': name, 'argument': 1.5 + 2j, 'outcome': out.brief()}
            if hygiene(ctx, name, [1.5 + 2j], out, wit) and out.returned:
                ctx.violation('C15:real_only_accepts_complex:' + name, 'returned %r' % (out.value,), wit)
        # wrong arity
        for args in ([1.0, 2.0], [1.0, 2.0, 3.0]):
            out = call_fn(ctx, table, name, args)
            ctx.ev()
            ctx.count('arity_errors')
            wit = {'function': name, 'arguments': args, 'outcome': out.brief()}
            if out.returned or type(out.exc).__name__ != 'ArgumentError':
                ctx.violation('C15:arity:' + name, '%s with %d arguments: %r' % (name, len(args), out.brief()), wit)
        # wrong shapes
        from mitxgraders.helpers.calc import MathArray
        shapes = (MathArray([1.0, 2.0]), MathArray([[1.0, 2.0], [3.0, 4.0]]), MathArray([[1.0, 2.0, 3.0]]), MathArray(np.ones((2, 2, 2))))
        if name in ('re', 'im', 'conj'):
            # elementwise on arrays of every shape, complex entries included; an array with ONE entry stays an array of its shape
            shapes += (MathArray([2 + 3j]), MathArray([[2 + 3j]]), MathArray([1 + 2j, 3 - 1j]), MathArray([[1j, 2.0], [3 - 4j, -1j]]), MathArray([-2.5]))
        for arr in shapes:
            out = call_fn(ctx, table, name, [arr])
            ctx.ev()
            wit = {'function': name, 'argument_shape': arr.shape, 'outcome': out.brief()}
            if name in ('re', 'im', 'conj'):
                ref = {'re': np.real, 'im': np.imag, 'conj': np.conj}[name](np.asarray(arr))
                ctx.count('elementwise_array_function_checks')
                if not out.returned or np.shape(out.value) != np.shape(ref) or not close(out.value, ref):
                    ctx.violation('C15:array_function:' + name, 'expected %r, got %r' % (ref, out.brief()), wit)
                continue
            if tag == 'matrix' and name == 'abs':
                continue   # abs is the vector magnitude in the matrix table; checked separately
            ctx.count('shape_errors')
            if out.returned:
                ctx.violation('C15:wrong_shape_accepted:' + name, '%s(array %s) returned %r' % (name, arr.shape, out.value), wit)
            elif not student_facing(out.exc):
                ctx.violation('C15:foreign_exception:%s:%s' % (name, type(out.exc).__name__), repr(out.exc), wit)
    for nm in covered:
        ctx.count('functions_covered')
    return covered


def run_int_arguments(ctx, table):
    """Integer-typed arguments (kronecker sums, integer constants) are numbers like any other: f(2) == f(2.0)."""
    names = sorted(n for n in (set(FORWARD) | set(INVERSE)) if n in table)
    for name in names:
        for k in (-3, -2, -1, 0, 1, 2, 3, 7):
            a = call_fn(ctx, table, name, [int(k)])
            b = call_fn(ctx, table, name, [float(k)])
            ctx.ev(2)
            ctx.count('int_argument_checks')
            wit = {'function': name, 'argument': k, 'with_int': a.brief(), 'with_float': b.brief()}
            if a.returned != b.returned:
                ctx.violation('C15:int_argument:outcome_differs:' + name, '%s(%d) %r but %s(%d.0) %r' % (name, k, a.brief(), name, k, b.brief()), wit)
            elif a.returned and not close(a.value, b.value):
                ctx.violation('C15:int_argument:value_differs:' + name, '%s(%d) = %r, %s(%d.0) = %r' % (name, k, a.value, name, k, b.value), wit)
            elif a.returned:
                ctx.nontrivial(['int', name, k])
    # the route by which integers really arrive: sums of kronecker deltas
    from mitxgraders.helpers.calc import evaluator, DEFAULT_VARIABLES
    for name in names:
        s_ = '%s(kronecker(1,1)+kronecker(2,2))' % name
        a = lib.call(ctx, lambda: evaluator(s_, DEFAULT_VARIABLES, table, {})[0])
        b = call_fn(ctx, table, name, [2.0])
        ctx.ev(2)
        ctx.count('int_argument_checks')
        if a.returned != b.returned or (a.returned and not close(a.value, b.value)):
            ctx.violation('C15:int_argument:through_kronecker:' + name, '%s -> %r, %s(2.0) -> %r' % (s_, a.brief(), name, b.brief()), {'string': s_})


def run_saturating(ctx, table):
    """tan, cot, tanh, coth stay bounded far from the real (imaginary) axis: their limits, not an overflow."""
    cases = []
    for y in (40.0, 360.0, 711.0, 800.0, 5000.0):
        for x in (0.0, 1.0, -2.5):
            cases += [('tan', complex(x, y), 1j), ('tan', complex(x, -y), -1j), ('cot', complex(x, y), -1j), ('cot', complex(x, -y), 1j),
                      ('tanh', complex(y, x), 1.0), ('tanh', complex(-y, x), -1.0), ('coth', complex(y, x), 1.0), ('coth', complex(-y, x), -1.0)]
    cases += [('tanh', 900.0, 1.0), ('tanh', -900.0, -1.0), ('coth', 900.0, 1.0), ('coth', -900.0, -1.0),
              ('arctan', 1e200, PI / 2), ('arctan', -1e200, -PI / 2), ('arccot', 1e200, 0.0), ('arcsinh', 1e200, math.log(2) + 200 * math.log(10))]
    for name, z, want in cases:
        if name not in table:
            continue
        out = call_fn(ctx, table, name, [z])
        ctx.ev()
        ctx.count('saturating_checks')
        wit = {'function': name, 'argument': z, 'limit': want, 'outcome': out.brief()}
        ctx.nontrivial(['sat', name, repr(z)])
        if not hygiene(ctx, name, [z], out, wit):
            continue
        if not out.returned:
            ctx.violation('C15:saturating:error:' + name, '%s(%r) raised %r; its value is %r to rounding' % (name, z, out.exc, want), wit)
        elif abs(complex(out.value) - complex(want)) > 1e-9:
            ctx.violation('C15:saturating:value:' + name, '%s(%r) = %r, expected %r' % (name, z, out.value, want), wit)


def run_history(ctx, table):
    """Out-of-domain calls are refused also AFTER graders have compared infinities (numpy's error state is process-wide)."""
    import mitxgraders as M
    rng = ctx.rng
    probes = [('arccosh', 0.5), ('arcsec', 0.5), ('arcsech', 2.0), ('arccoth', 0.5), ('arccsc', 0.3), ('arctanh', 1.0), ('ln', 0.0), ('cot', 0.0)]
    for i in range(ctx.pick(20, 200)):
        kind = rng.choice(['numerical_inf', 'interval_inf', 'formula_inf', 'interval_inf_wrong'])
        if kind == 'numerical_inf':
            before = lib.call(ctx, M.NumericalGrader(answers='infty', allow_inf=True), None, rng.choice(['infty', '-infty', '5']))
        elif kind == 'formula_inf':
            before = lib.call(ctx, M.FormulaGrader(answers='infty+0*x', variables=['x'], allow_inf=True), None, rng.choice(['infty', 'x']))
        elif kind == 'interval_inf':
            before = lib.call(ctx, M.IntervalGrader(answers='[0, infty)'), None, '[0, infty)')
        else:
            before = lib.call(ctx, M.IntervalGrader(answers='(-infty, 2]'), None, rng.choice(['(-infty, 3]', '[1, 2]', '(infty, 2]']))
        for name, z in rng.sample(probes, 3):
            if name not in table:
                continue
            out = call_fn(ctx, table, name, [z])
            ctx.ev()
            ctx.count('domain_checks_after_infinity_comparisons')
            wit = {'function': name, 'argument': z, 'earlier_call': kind, 'earlier_outcome': before.brief(), 'outcome': out.brief()}
            ctx.nontrivial(['hist', kind, name])
            if hygiene(ctx, name, [z], out, wit) and out.returned and not (name in ('arccosh', 'arcsec', 'arcsech', 'arccoth', 'arccsc', 'arctanh') and isinstance(out.value, complex)):
                ctx.violation('C15:history:out_of_domain_value:' + name, '%s(%r) returned %r after %s' % (name, z, out.value, kind), wit)


def run_multi(ctx, table):
    rng = ctx.rng
    # arctan2(x, y): documented (x, y) order -> atan2(y, x)
    pts = [(1, 0), (0, 1), (-1, 0), (0, -1), (1, 1), (-1, 1), (-1, -1), (1, -1), (2.5, -0.5), (-1e-9, 1), (3, 1e-9),
           (-3, -1e-9), (-3, 1e-9), (1e-300, 1e-300), (1e300, -1e300), (0.0, 0.0)]
    pts += [(rng.uniform(-5, 5), rng.uniform(-5, 5)) for _ in range(20)]
    for x, y in pts:
        out = call_fn(ctx, table, 'arctan2', [float(x), float(y)])
        ctx.ev()
        ctx.count('arctan2_checks')
        wit = {'function': 'arctan2', 'arguments': [x, y], 'outcome': out.brief()}
        if not hygiene(ctx, 'arctan2', [x, y], out, wit):
            continue
        if x == 0 and y == 0:
            if out.returned:
                ctx.violation('C15:arctan2_origin', 'arctan2(0,0) returned %r' % (out.value,), wit)
            continue
        ref = math.atan2(y, x)
        if not out.returned or not close(out.value, ref):
            ctx.violation('C15:value:arctan2', 'arctan2(%r,%r): %r, definition (angle of the point (x,y)) gives %r'
                          % (x, y, out.brief(), ref), wit)
        ctx.nontrivial(['arctan2', x, y])
    # the angle of a point of the real plane: complex coordinates are outside the domain
    for args in ([1j, 1.0], [1.0, 1j], [1 + 1j, 2.0], [2.0, 3 - 1e-3j], [1j, 1j]):
        out = call_fn(ctx, table, 'arctan2', list(args))
        ctx.ev()
        ctx.count('arctan2_checks')
        wit = {'function': 'arctan2', 'arguments': list(args), 'outcome': out.brief()}
        if hygiene(ctx, 'arctan2', [], out, wit) and out.returned:
            ctx.violation('C15:real_only_accepts_complex:arctan2', 'returned %r' % (out.value,), wit)
    for args in ([1.0], [1.0, 2.0, 3.0]):
        for nm in ('arctan2', 'kronecker'):
            out = call_fn(ctx, table, nm, args)
            ctx.ev()
            ctx.count('arity_errors')
            if out.returned or type(out.exc).__name__ != 'ArgumentError':
                ctx.violation('C15:arity:' + nm, repr(out.brief()), {'function': nm, 'arguments': args})
    for a, b in [(1, 1), (1, 2), (0, 0), (-3, -3), (2.5, 2.5), (2, 2.0000001), (1j, 1j), (1 + 1j, 1 - 1j), (0, -0.0)]:
        out = call_fn(ctx, table, 'kronecker', [a, b])
        ctx.ev()
        ref = 1 if a == b else 0
        if not out.returned or out.value != ref:
            ctx.violation('C15:value:kronecker', 'kronecker(%r,%r): %r' % (a, b, out.brief()), {'arguments': [a, b]})
        ctx.nontrivial(['kron', repr(a), repr(b)])
    for nm, fn in (('min', min), ('max', max)):
        for k in (2, 3, 5):
            args = [round(rng.uniform(-10, 10), 3) for _ in range(k)]
            out = call_fn(ctx, table, nm, args)
            ctx.ev()
            if not out.returned or out.value != fn(args):
                ctx.violation('C15:value:' + nm, '%s%r: %r' % (nm, tuple(args), out.brief()), {'arguments': args})
            ctx.nontrivial([nm, args])
        out = call_fn(ctx, table, nm, [1.0])
        ctx.ev()
        ctx.count('arity_errors')
        if out.returned or type(out.exc).__name__ != 'ArgumentError':
            ctx.violation('C15:arity:' + nm, '%s(1): %r' % (nm, out.brief()), {})
        out = call_fn(ctx, table, nm, [1 + 1j, 2.0])
        ctx.ev()
        wit = {'function': nm, 'arguments': [1 + 1j, 2.0], 'outcome': out.brief()}
        if hygiene(ctx, nm, [], out, wit) and out.returned:
            ctx.violation('C15:real_only_accepts_complex:' + nm, 'returned %r' % (out.value,), wit)
        from mitxgraders.helpers.calc import MathArray
        out = call_fn(ctx, table, nm, [MathArray([1.0, 2.0]), 2.0])
        ctx.ev()
        ctx.count('shape_errors')
        if out.returned or not student_facing(out.exc):
            ctx.violation('C15:wrong_shape_accepted:' + nm, repr(out.brief()), {})


def run_matrix_functions(ctx, table):
    from mitxgraders.helpers.calc import MathArray
    rng = ctx.rng

    def rand(shape, cplx):
        a = np.array([rng.uniform(-3, 3) for _ in range(int(np.prod(shape)))]).reshape(shape)
        if cplx:
            a = a + 1j * np.array([rng.uniform(-3, 3) for _ in range(int(np.prod(shape)))]).reshape(shape)
        return a
    for i in range(ctx.n(640, 40000)):
        cplx = i % 2 == 1
        shape = rng.choice([(2,), (3,), (4,), (2, 2), (3, 3), (2, 3), (3, 2), (4, 4), (1, 3),
                            (2, 2, 2), (2, 2, 3), (3, 3, 2), (3, 3, 3), (2, 3, 3)])
        a = rand(shape, cplx)
        A = MathArray(a.copy())
        if len(shape) == 3:
            # tensors: the square-matrix functions and abs must refuse them
            refs = {'det': 'error', 'trace': 'error', 'abs': 'error'}
        else:
            refs = {
                'norm': float(np.sqrt(np.sum(np.abs(a) ** 2))),
                'trans': a.T, 'ctrans': np.conj(a.T), 'adj': np.conj(a.T),
            }
        if len(shape) == 1:
            refs['abs'] = float(np.sqrt(np.sum(np.abs(a) ** 2)))
        elif len(shape) == 2:
            refs['abs'] = 'error'
        square = len(shape) == 2 and shape[0] == shape[1]
        if len(shape) < 3:
            refs['det'] = np.linalg.det(a) if square else 'error'
            refs['trace'] = np.trace(a) if square else 'error'
        for nm, ref in refs.items():
            out = call_fn(ctx, table, nm, [A])
            ctx.ev()
            ctx.count('matrix_function_checks')
            wit = {'function': nm, 'argument': a, 'outcome': out.brief()}
            if not hygiene(ctx, nm, [a], out, wit):
                continue
            if isinstance(ref, str):
                ctx.count('shape_errors')
                if out.returned:
                    ctx.violation('C15:wrong_shape_accepted:' + nm, '%s(%s array) returned %r' % (nm, shape, out.value), wit)
                continue
            if not out.returned or not close(out.value, ref, rel=1e-9, abs_=1e-9):
                ctx.violation('C15:value:' + nm, '%s: expected %r, got %r' % (nm, ref, out.brief()), wit)
            if not np.array_equal(np.asarray(A), a):
                ctx.violation('C15:argument_modified:' + nm, 'argument changed', wit)
            ctx.nontrivial(['mat', nm, shape, cplx, i])
        # cross
        u, v = rand((3,), cplx), rand((3,), cplx)
        out = call_fn(ctx, table, 'cross', [MathArray(u), MathArray(v)])
        ctx.ev()
        ctx.count('matrix_function_checks')
        ref = np.array([u[1] * v[2] - u[2] * v[1], u[2] * v[0] - u[0] * v[2], u[0] * v[1] - u[1] * v[0]])
        if not out.returned or not close(out.value, ref):
            ctx.violation('C15:value:cross', 'cross(%r,%r): %r, expected %r' % (u, v, out.brief(), ref), {'u': u, 'v': v})
        # mixed element types, narrower one first: the result has the wider type
        ur, vc = rand((3,), False), rand((3,), True)
        ui = np.array([float(rng.randint(-3, 3)) for _ in range(3)]).astype(int)
        vf = rand((3,), False)
        for a_, b_, tag_ in ((ur, vc, 'real x complex'), (vc, ur, 'complex x real'), (ui, vf, 'int x float'), (ui, vc, 'int x complex')):
            out = call_fn(ctx, table, 'cross', [MathArray(a_), MathArray(b_)])
            ctx.ev()
            ctx.count('matrix_function_checks')
            ref = np.cross(np.asarray(a_, dtype=complex), np.asarray(b_, dtype=complex))
            if not out.returned or not close(out.value, ref):
                ctx.violation('C15:value:cross:mixed_types', 'cross (%s): %r, expected %r' % (tag_, out.brief(), ref), {'u': a_, 'v': b_, 'types': tag_})
        # surplus arguments to the matrix functions: an argument error, never numpy's optional parameters
        for nm_ in ('norm', 'trans', 'det', 'trace', 'adj', 'ctrans', 'abs', 'cross'):
            if nm_ not in table:
                continue
            base_ = [MathArray(rand((3, 3), False))] if nm_ in ('det', 'trace', 'trans', 'adj', 'ctrans') else [MathArray(u)] if nm_ != 'cross' else [MathArray(u), MathArray(v)]
            for extra_ in ([1.0], [0.0], [2.0, 0.0], [MathArray(u)]):
                out = call_fn(ctx, table, nm_, base_ + extra_)
                ctx.ev()
                ctx.count('arity_errors')
                if out.returned or type(out.exc).__name__ != 'ArgumentError':
                    ctx.violation('C15:arity:' + nm_, '%s with %d arguments: %r' % (nm_, len(base_) + len(extra_), out.brief()),
                                  {'function': nm_, 'surplus': [repr(x)[:30] for x in extra_]})
        bad = rand(rng.choice([(2,), (4,), (3, 3)]), False)
        out = call_fn(ctx, table, 'cross', [MathArray(u), MathArray(bad)])
        ctx.ev()
        ctx.count('shape_errors')
        if out.returned or not student_facing(out.exc):
            ctx.violation('C15:wrong_shape_accepted:cross', repr(out.brief()), {'shape': bad.shape})
    # scalars through norm / abs in the matrix table
    for z in (3.0, -2.5, 3 + 4j):
        for nm in ('norm', 'abs'):
            out = call_fn(ctx, table, nm, [z])
            ctx.ev()
            if not out.returned or not close(out.value, abs(z)):
                ctx.violation('C15:value:%s:scalar' % nm, '%s(%r): %r' % (nm, z, out.brief()), {})


EXACT_VALUES = (
    # values that are exactly representable and that floor / ceil / kronecker or an exact comparison downstream depend on
    [('log10(1%s)' % ('0' * k), float(k)) for k in range(0, 16)] + [('log10(0.1)', -1.0), ('log10(0.01)', -2.0), ('log10(0.001)', -3.0)]
    + [('log2(%d)' % 2 ** k, float(k)) for k in range(0, 41, 3)] + [('log2(0.5)', -1.0), ('log2(0.125)', -3.0)]
    + [('sqrt(%d)' % (k * k), float(k)) for k in (0, 1, 2, 3, 7, 12, 100, 4096)]
    + [('floor(log10(1000))', 3), ('ceil(log10(1000))', 3), ('kronecker(log10(1000),3)', 1), ('floor(log10(1000000))+1', 7), ('floor(log2(8))', 3),
       ('ceil(log2(1024))', 10), ('kronecker(sqrt(49),7)', 1), ('floor(sqrt(144))', 12), ('exp(0)', 1.0), ('cos(0)', 1.0), ('ln(1)', 0.0),
       ('abs(-3)', 3.0), ('floor(-0.5)', -1), ('ceil(-0.5)', 0), ('max(1,2,3)', 3), ('min(1,-2,3)', -2), ('re(2+3*i)', 2.0), ('im(2+3*i)', 3.0),
       ('floor(log10(1e15))', 15), ('ceil(log10(1e13))', 13)]
)


def run_exact_values(ctx):
    from mitxgraders.helpers.calc import evaluator, DEFAULT_FUNCTIONS, DEFAULT_VARIABLES
    for s_, want in EXACT_VALUES:
        out = lib.call(ctx, lambda: evaluator(s_, DEFAULT_VARIABLES, DEFAULT_FUNCTIONS, {})[0])
        ctx.ev()
        ctx.count('exact_value_checks')
        ctx.nontrivial('exact:' + s_)
        wit = {'string': s_, 'exact_value': want, 'outcome': out.brief()}
        if not out.returned:
            ctx.violation('C15:exact_value:raises', repr(out.exc), wit)
        elif not (np.ndim(out.value) == 0 and complex(out.value) == complex(want)):
            ctx.violation('C15:exact_value:' + s_.split('(')[0], '%s = %r, exactly %r by definition' % (s_, out.value, want), wit)


def run_constants(ctx):
    from mitxgraders.helpers.calc import evaluator
    from mitxgraders import FormulaGrader, MatrixGrader, NumericalGrader
    for cls in (FormulaGrader, NumericalGrader, MatrixGrader):
        g = cls()
        for nm, ref in (('i', 1j), ('j', 1j), ('e', math.e), ('pi', math.pi)):
            ctx.ev()
            ctx.count('constants')
            v = g.constants.get(nm)
            out = lib.call(ctx, lambda: evaluator(nm, g.constants, g.functions, g.suffixes)[0])
            if v is None or not out.returned or out.value != ref or abs(out.value - ref) > 0:
                ctx.violation('C15:constant:' + nm, '%s in %s: %r' % (nm, cls.__name__, out.brief()), {})
            ctx.nontrivial(['const', cls.__name__, nm])


def run(ctx):
    from mitxgraders import FormulaGrader, MatrixGrader
    ftable = FormulaGrader().functions
    mtable = MatrixGrader().functions
    missing = [n for n in list(FORWARD) + list(INVERSE) + ['arctan2', 'kronecker', 'min', 'max'] if n not in ftable]
    if missing:
        ctx.violation('C15:missing_function', 'documented functions missing from the default table: %r' % missing, {})
    run_scalar(ctx, ftable, 'formula')
    if ctx.shard % 2 == 0:
        run_multi(ctx, ftable)
    if ctx.shard % 4 == 1:
        run_multi(ctx, mtable)
    run_matrix_functions(ctx, mtable)
    if ctx.shard % 4 == 1:
        run_int_arguments(ctx, ftable)
        run_int_arguments(ctx, mtable)
    if ctx.shard % 4 == 2:
        run_saturating(ctx, ftable)
        run_saturating(ctx, mtable)
    if ctx.shard % 4 == 3:
        run_history(ctx, ftable)
    if ctx.shard % 8 == 5:
        run_exact_values(ctx)
    if ctx.shard == 0:
        run_constants(ctx)
        # the matrix table must keep the scalar functions' behaviour (abs excepted)
        run_scalar_subset = [n for n in ('sin', 'arccos', 'ln', 'sqrt', 'exp', 'arccot') if n in mtable]
        for nm in run_scalar_subset:
            for z in REAL_GRID[::3] + [0.5 + 0.5j]:
                if nm in FORWARD:
                    check_forward(ctx, mtable, nm, z)
                else:
                    check_inverse(ctx, mtable, nm, z)
        ctx.sample({'call': "evaluator('arctan2(a0,a1)', {'a0': -1.0, 'a1': 1.0})", 'reference': math.atan2(1.0, -1.0)})
        ctx.sample({'call': "evaluator('arcsec(a0)', {'a0': 2.0})", 'check': 'sec(result) == 2 and 0 <= result <= pi'})
    ctx.note('not_exercised', 'factorial / fact (need scipy)')
