"""
C20 -- configuration validation enforces documented option domains and fills defaults.

Oracle: a table, per public class, of every documented option with its documented default and
pools of in-domain and out-of-domain values (wrong type, out of range, wrong length), plus the
cross-option rules of the statement.  Monitor: constructor success / raised error class, the
resulting obj.config, equality of Cls(obj.config) and obj (graders), kwargs-vs-dict equivalence.
"""
import math

import numpy as np

from vf import lib
from vf import state

RULE = ('for each public grader, sampler, comparer and schedule: the default construction (every documented option '
        'present with its documented default), exhaustively every single-option deviation from the default '
        'configuration drawn from in-domain and out-of-domain pools, unknown keys, random multi-option '
        'combinations, every cross-option rule violation, every documented answers format, re-construction '
        'from obj.config (graders) and kwargs/dict equivalence. Non-trivial = every construction attempt '
        'with a non-default value; distinct by (class, option, value).')
ASSUMPTIONS = ['R12: booleans count as ints in Python and are not in the out-of-domain pools of int options; NaN is out of domain for range-restricted numbers (tolerance, credits, cutoffs) and in no pool of unrestricted ones',
               'R13: re-construction Cls(obj.config) == obj is demanded for graders only',
               'defaults transcribed from the documentation text of each class (docstrings / docs option listings)']

# ---- pools --------------------------------------------------------------------------------
BOOL = ([True, False], [None, 0, 1, 'yes', [], 2.0])
STR = (['', 'abc', u'é x'], [None, 5, ['a'], b'x', 2.5])
STR1 = (['a', ';', 'ab'], [None, 5, ['a'], '', b'x'])            # at least one character
NNINT = ([0, 1, 7], [-1, 1.5, '1', None, [1], 1j])
POSINT = ([1, 3, 12], [0, -1, 2.5, '2', None, [1], 1j])
ENUM3 = (['err', 'msg', None], ['x', 5, True, ['err']])
NAN = float('nan')
TOL = ([0, 0.5, 1e-9, 2, '5%', '0%', ' 3.5% '], [-1, '-5%', 'abc', None, [1], '5', 1j, '%', 'five%', NAN])
STRLIST = ([[], ['a'], ['a', 'b']], ['a', [1], None, ('a',), [['a']], {'a': 1}, 5])
CALLABLE_OR_NONE = ([None, abs, lambda n: 1], [5, 'f', [abs], {}])
CREDIT01 = ([0, 1, 0.5, 0.25, 1.0, 0.0], [-0.1, 1.5, 'a', [0.5], 1j, 2, NAN])
CREDIT01N = ([None, 0, 1, 0.5, 1.0], [-0.1, 1.5, 'a', [0.5], 1j, 2, NAN])
REALNUM = ([0, -2, 3.5, 1e6], ['a', None, [1], 1j])
NUMRANGE = ([[1, 2], [2, 1], [0, 0], [-1.5, 3], {'start': 2, 'stop': 4}], [[1], [1, 2, 3], 'a', 5, ['a', 'b'], [1j, 2], [None, 1]])
NUMRANGE_OPT = (NUMRANGE[0], NUMRANGE[1] + [None])
INTRANGE = ([[1, 2], [5, 1], [0, 0], {'start': 2, 'stop': 4}], [[1.5, 2], [1], [1, 2, 3], 'a', 5])


def spec_table():
    """class name -> dict(make_base=..., required={...}, options={name: (default, (in_pool, out_pool))}, kind)."""
    import mitxgraders as M
    from mitxgraders.baseclasses import AbstractGrader
    abstract = {
        'debug': (False, BOOL), 'suppress_warnings': (False, BOOL), 'attempt_based_credit': (None, CALLABLE_OR_NONE),
        'attempt_based_credit_msg': (True, BOOL),
    }
    item = dict(abstract, wrong_msg=('', STR))
    math_opts = {
        'user_functions': ({}, ([{}, {'f': abs}, {'g': [abs, math.sin]}, {'h': M.RandomFunction()}], [None, 5, ['f'], {'f': 5}, {1: abs}, {'f': [5]}])),
        'user_constants': ({}, ([{}, {'c': 2.5}, {'v': M.MathArray([1, 2])}, {'z': 1j}], [None, 5, {'c': 'a'}, {1: 2}, {'c': [1]}])),
        'blacklist': ([], ([[], ['sin'], ['sin', 'cos']], ['sin', [1], None, ['notafunction']])),
        'whitelist': ([], ([[], ['sin'], [None]], ['sin', [1], None, ['notafunction'], [None, None], [None, 'sin']])),
        'forbidden_strings': ([], STRLIST),
        'forbidden_message': ('Invalid Input: This particular answer is forbidden', STR),
        'required_functions': ([], STRLIST),
        'tolerance': ('0.01%', TOL),
        'metric_suffixes': (False, BOOL),
        'samples': (5, POSINT),
        'variables': ([], ([[], ['x'], ['x', 'y_1', "z'"]], ['x', [1], None, ['x', 'x'], ('x',)])),
        'numbered_vars': ([], ([[], ['a'], ['a', 'b']], ['a', [1], None, ['a', 'a']])),
        'sample_from': ({}, ([{}], [None, 5, ['x'], {'undeclared': [1, 2]}])),
        'failable_evals': (0, NNINT),
        'instructor_vars': ([], STRLIST),
    }
    T = {}
    T['StringGrader'] = dict(cls=M.StringGrader, kind='grader', required={}, options=dict(item, **{
        'case_sensitive': (True, BOOL), 'strip': (True, BOOL), 'strip_all': (False, BOOL), 'clean_spaces': (True, BOOL),
        'accept_any': (False, BOOL), 'accept_nonempty': (False, BOOL), 'min_length': (0, NNINT), 'min_words': (0, NNINT),
        'explain_minimums': ('err', ENUM3), 'validation_pattern': (None, (['a+', None, ''], [5, ['a'], b'a'])),
        'explain_validation': ('err', ENUM3), 'invalid_msg': ('Your input is not in the expected format', STR)}))
    T['FormulaGrader'] = dict(cls=M.FormulaGrader, kind='grader', required={}, options=dict(item, **dict(math_opts, **{
        'allow_inf': (False, BOOL), 'max_array_dim': (0, NNINT)})))
    num = dict(math_opts)
    num.update({'tolerance': ('5%', TOL), 'samples': (1, ([1], [2, 0, 5, '1', None])), 'variables': ([], ([[]], [['x'], 'x', None])),
                'numbered_vars': ([], ([[]], [['a'], None])), 'sample_from': ({}, ([{}], [{'x': [1, 2]}, None])),
                'failable_evals': (0, ([0], [1, -1, None])),
                'user_functions': ({}, ([{}, {'f': abs}], [None, 5, {'f': 5}, {'f': [abs]}, {'h': M.RandomFunction()}])),
                'allow_inf': (False, BOOL), 'max_array_dim': (0, NNINT)})
    T['NumericalGrader'] = dict(cls=M.NumericalGrader, kind='grader', required={}, options=dict(item, **num))
    mat = dict(math_opts)
    mat.update({'identity_dim': (None, ([None, 0, 2, 5], [-1, 1.5, 'a', [2]])), 'max_array_dim': (1, ([None, 0, 1, 3], [-1, 1.5, 'a'])),
                'negative_powers': (True, BOOL), 'shape_errors': (True, BOOL), 'suppress_matrix_messages': (False, BOOL),
                'answer_shape_mismatch': ({'is_raised': True, 'msg_detail': 'type'},
                                          ([{}, {'is_raised': False}, {'msg_detail': None}, {'msg_detail': 'shape', 'is_raised': True}],
                                           [None, 5, {'is_raised': 1}, {'msg_detail': 'x'}, {'foo': 1}, ['type']])),
                'allow_inf': (False, ([False], [True, None]))})
    T['MatrixGrader'] = dict(cls=M.MatrixGrader, kind='grader', required={}, options=dict(item, **mat),
                             optional_absent={'entry_partial_credit': ([0, 0.5, 1, 'proportional'], [-1, 2, 'x', None, [1]]),
                                              'entry_partial_msg': (['', 'msg {error_locations}'], [None, 5])})
    T['SingleListGrader'] = dict(cls=M.SingleListGrader, kind='grader', required={'subgrader': lambda: M.StringGrader()},
                                 options=dict(item, **{'ordered': (False, BOOL), 'length_error': (False, BOOL), 'missing_error': (True, BOOL),
                                                       'delimiter': (',', STR1), 'partial_credit': (True, BOOL)}),
                                 required_pools={'subgrader': ([M.StringGrader(), M.FormulaGrader(), M.SingleListGrader(subgrader=M.StringGrader(), delimiter=';')],
                                                               [None, 5, 'StringGrader', M.ListGrader(subgraders=M.StringGrader()), M.StringGrader, [M.StringGrader()]])})
    T['IntervalGrader'] = dict(cls=M.IntervalGrader, kind='grader', required={}, options=dict(item, **{
        'ordered': (True, ([True], [False, None])), 'length_error': (True, ([True], [False, None])), 'missing_error': (True, ([True], [False, None])),
        'opening_brackets': ('[(', (['[', '[(<'], ['', None, 5, ['[']])), 'closing_brackets': ('])', ([']', '])>'], ['', None, 5])),
        'delimiter': (',', STR1), 'partial_credit': (True, BOOL),
        'subgrader': ('NumericalGrader(tolerance=1e-13, allow_inf=True)', ([None, M.FormulaGrader(), M.NumericalGrader()], [5, 'x', M.StringGrader()]))}))
    T['ListGrader'] = dict(cls=M.ListGrader, kind='grader', required={'subgraders': lambda: M.StringGrader()},
                           options=dict(abstract, **{'ordered': (False, BOOL), 'partial_credit': (True, BOOL),
                                                     'grouping': ([], ([[]], [[0], [-1], 'a', None, [1.5], 5])),
                                                     'answers': ((), ([[], ['a', 'b'], (['a', 'b'], ['c', 'd'])], [None, 'a', 5, ['a'], (['a', 'b'], ['c']), {'a': 1}]))}),
                           required_pools={'subgraders': ([M.StringGrader(), M.FormulaGrader(), M.SingleListGrader(subgrader=M.StringGrader())],
                                                          [None, 5, 'StringGrader', M.StringGrader, {}])})
    sumopts = dict(math_opts)
    sumopts.update({'samples': (2, POSINT), 'tolerance': (1e-12, TOL), 'infty_val': (1e3, ([1, 50, 1e3, 2.5], [0, -1, 'a', None, NAN])),
                    'infty_val_fact': (80, ([1, 80, 2.5], [0, -1, 'a', None, NAN])), 'even_odd': (0, ([0, 1, 2], [3, -1, 'a', None, 1.5])),
                    'input_positions': ({'lower': 1, 'upper': 2, 'summand': 3, 'summation_variable': 4},
                                        ([{'summand': 1}, {'lower': 1, 'upper': 2}, {'lower': 2, 'upper': 1, 'summand': 3, 'summation_variable': 4}],
                                         [None, 5, {'summand': 2}, {'lower': 1, 'upper': 1}, {'summand': 0}, {'foo': 1}, {'summand': 'a'}, {'lower': 1, 'summand': 3}]))})
    T['SumGrader'] = dict(cls=M.SumGrader, kind='grader',
                          required={'answers': lambda: {'lower': '1', 'upper': '3', 'summand': 'n', 'summation_variable': 'n'}},
                          options=dict(abstract, **sumopts),
                          required_pools={'answers': ([{'lower': '0', 'upper': 'infty', 'summand': '1/2^k', 'summation_variable': 'k'}],
                                                      [None, 5, 'n', {'lower': '1'}, {'lower': 1, 'upper': 3, 'summand': 'n', 'summation_variable': 'n'},
                                                       {'lower': '1', 'upper': '3', 'summand': 'n', 'summation_variable': 'n', 'extra': 'x'}])})
    # samplers
    T['RealInterval'] = dict(cls=M.RealInterval, kind='sampler', required={}, options={'start': (1, REALNUM), 'stop': (5, REALNUM)},
                             positional=NUMRANGE, canonical_swap=True)
    T['IntegerRange'] = dict(cls=M.IntegerRange, kind='sampler', required={},
                             options={'start': (1, ([0, -2, 3], [1.5, 'a', None, 1j])), 'stop': (5, ([0, -2, 3, 9], [1.5, 'a', None]))}, positional=INTRANGE,
                             canonical_swap=True)
    T['ComplexRectangle'] = dict(cls=M.ComplexRectangle, kind='sampler', required={}, options={'re': ([1, 3], NUMRANGE), 're_': None, 'im': ([1, 3], NUMRANGE)})
    T['ComplexSector'] = dict(cls=M.ComplexSector, kind='sampler', required={}, options={'modulus': ([1, 3], NUMRANGE), 'argument': ([0, math.pi / 2], NUMRANGE)})
    T['RandomFunction'] = dict(cls=M.RandomFunction, kind='sampler', required={}, options={
        'input_dim': (1, POSINT), 'output_dim': (1, POSINT), 'num_terms': (3, POSINT), 'center': (0, ([0, -2.5, 3, 1j], ['a', None, [1]])),
        'amplitude': (10, ([1, 0.5, 100], [0, -1, 'a', None, [1], NAN])), 'complex': (False, BOOL)})
    arr = {'norm': ([1, 5], NUMRANGE), 'complex': None}
    T['RealVectors'] = dict(cls=M.RealVectors, kind='sampler', required={}, options={
        'shape': ((3,), ([1, 4, [2], (5,)], [0, -1, [2, 2], 'a', None, 1.5, []])), 'norm': ([1, 5], NUMRANGE), 'complex': (False, ([False], [True, None]))})
    T['ComplexVectors'] = dict(cls=M.ComplexVectors, kind='sampler', required={}, options={
        'shape': ((3,), ([1, 4, [2], (5,)], [0, -1, [2, 2], 'a', None])), 'norm': ([1, 5], NUMRANGE), 'complex': (True, ([True], [False, None]))})
    T['RealMatrices'] = dict(cls=M.RealMatrices, kind='sampler', required={}, options={
        'shape': ((2, 2), ([[2, 3], (1, 4), [3, 3]], [2, [2], [2, 2, 2], [0, 2], 'a', None])), 'norm': ([1, 5], NUMRANGE),
        'complex': (False, ([False], [True])), 'triangular': (None, ([None, 'upper', 'lower'], ['x', 5, True]))})
    T['ComplexMatrices'] = dict(cls=M.ComplexMatrices, kind='sampler', required={}, options={
        'shape': ((2, 2), ([[2, 3], (1, 4)], [2, [2], [2, 2, 2], 'a'])), 'norm': ([1, 5], NUMRANGE),
        'complex': (True, ([True], [False])), 'triangular': (None, ([None, 'upper', 'lower'], ['x', 5]))})
    T['RealTensors'] = dict(cls=M.RealTensors, kind='sampler', required={'shape': lambda: [2, 2, 2]}, options={
        'norm': ([1, 5], NUMRANGE), 'complex': (False, ([False], [True]))},
        required_pools={'shape': ([[2, 3, 4], (1, 1, 1, 2)], [2, [2, 2], 'a', None, [2, 0, 2]])})
    T['ComplexTensors'] = dict(cls=M.ComplexTensors, kind='sampler', required={'shape': lambda: [2, 2, 2]}, options={
        'norm': ([1, 5], NUMRANGE), 'complex': (True, ([True], [False]))},
        required_pools={'shape': ([[2, 3, 4]], [2, [2, 2], 'a', None])})
    T['IdentityMatrixMultiples'] = dict(cls=M.IdentityMatrixMultiples, kind='sampler', required={}, skip_config_defaults=['shape', 'sampler', 'norm', 'complex'], options={
        'dimension': (2, ([2, 3, 7], [1, 0, 2.5, 'a', None])),
        'sampler': ('RealInterval()', ([[1, 3], M.RealInterval(), M.IntegerRange(), M.ComplexSector()], [5, 'a', M.DiscreteSet((1, 2)), M.RealVectors(), None]))})
    T['SquareMatrices'] = dict(cls=M.SquareMatrices, kind='sampler', required={}, skip_config_defaults=['shape'], options={
        'dimension': (2, ([2, 3, 7], [1, 0, 2.5, 'a', None])), 'norm': ([1, 5], NUMRANGE), 'complex': (False, BOOL),
        'symmetry': (None, ([None, 'diagonal', 'symmetric', 'antisymmetric', 'hermitian', 'antihermitian'], ['x', 5, True])),
        'traceless': (False, BOOL), 'determinant': (None, ([None, 0, 1], [2, -1, 'a', 0.5]))})
    for nm in ('OrthogonalMatrices', 'UnitaryMatrices'):
        T[nm] = dict(cls=getattr(M, nm), kind='sampler', required={}, skip_config_defaults=['shape', 'norm', 'complex'], options={
            'dimension': (2, ([2, 3], [1, 0, 2.5, 'a'])), 'unitdet': (False, BOOL)})
    T['DependentSampler'] = dict(cls=M.DependentSampler, kind='sampler', required={'formula': lambda: 'x+1'}, options={},
                                 required_pools={'formula': (['x^2', '1', 'sin(y)*z'], [None, 5, ['x'], 'x+', '(x'])})
    T['DiscreteSet'] = dict(cls=M.DiscreteSet, kind='sampler', required={}, options={},
                            positional=([3.5, (1, 2, 3), M.MathArray([1, 2]), (1, M.MathArray([[1]])), 1j, (0,)], [(), 'a', ('a',), [1, 2], None, (1, 'a')]),
                            positional_required=True)
    T['SpecificFunctions'] = dict(cls=M.SpecificFunctions, kind='sampler', required={}, options={},
                                  positional=([abs, [abs, math.sin], [abs]], [[], 5, 'f', [5], None, (abs,)]), positional_required=True)
    # comparers, schedules
    T['LinearComparer'] = dict(cls=M.LinearComparer, kind='comparer', required={}, options={
        'equals': (1.0, CREDIT01N), 'proportional': (0.5, CREDIT01N), 'offset': (None, CREDIT01N), 'linear': (None, CREDIT01N),
        'equals_msg': ('', STR), 'proportional_msg': ('The submitted answer differs from an expected answer by a constant factor.', STR),
        'offset_msg': ('', STR), 'linear_msg': ('', STR)})
    T['MatrixEntryComparer'] = dict(cls=M.MatrixEntryComparer, kind='comparer', required={}, skip_config_defaults=['transform'], options={
        'entry_partial_credit': (0, ([0, 1, 0.5, 'proportional'], [-1, 2, 'x', None, [1]])),
        'entry_partial_msg': ('Some array entries are incorrect, marked below:\n{error_locations}', STR),
        'transform': ('identity', ([None, abs], [5, 'f']))})
    T['EqualityComparer'] = dict(cls=M.EqualityComparer, kind='comparer', required={}, skip_config_defaults=['transform'],
                                 options={'transform': ('identity', ([None, abs, np.linalg.norm], [5, 'f', [abs]]))})
    T['LinearCredit'] = dict(cls=M.LinearCredit, kind='schedule', required={}, options={
        'decrease_credit_after': (1, POSINT), 'decrease_credit_steps': (4, POSINT),
        'minimum_credit': (0.2, ([0, 1, 0.5, 0.0, 1.0], [-0.1, 1.5, 'a', None, 2]))})
    T['GeometricCredit'] = dict(cls=M.GeometricCredit, kind='schedule', required={}, options={
        'factor': (0.75, ([0, 1, 0.5, 0.99], [-0.1, 1.5, 'a', None, 2]))})
    T['ReciprocalCredit'] = dict(cls=M.ReciprocalCredit, kind='schedule', required={}, options={})
    for v in T.values():
        v['options'] = {k: o for k, o in v['options'].items() if o is not None}
    return T


def gates(tier):
    return {'constructions': 3000, 'in_domain_accepted': 500, 'out_of_domain_rejected': 1200, 'defaults_checked': 300,
            'unknown_key_cases': 30, 'cross_rule_cases': 40, 'answers_format_cases': 30, 'reconstruction_cases': 300,
            'kwargs_dict_equivalence_cases': 300, 'classes_covered': 30, 'multi_option_cases': 500, 'defaults_beside_registrations': 15, 'registered_precedence_cases': 20}


def is_validation_error(exc):
    import voluptuous
    from mitxgraders.exceptions import ConfigError
    return isinstance(exc, (ConfigError, voluptuous.Error))


def construct(cls, spec, cfg, positional=None, as_kwargs=True):
    full = {k: mk() for k, mk in spec['required'].items()}
    full.update(cfg)
    if positional is not None:
        return cls(positional)
    return cls(**full) if as_kwargs else cls(full)


def same_default(got, want):
    if isinstance(want, str) and want in ('identity', 'RealInterval()', 'NumericalGrader(tolerance=1e-13, allow_inf=True)'):
        import mitxgraders as M
        if want == 'identity':
            return callable(got)
        if want == 'RealInterval()':
            return got == M.RealInterval()
        return got == M.NumericalGrader(tolerance=1e-13, allow_inf=True)
    if isinstance(want, str) and want.endswith('%') and isinstance(got, str) and got.endswith('%'):
        return float(got[:-1]) == float(want[:-1])        # '5%' is canonicalised to '5.0%'
    if isinstance(got, dict) and set(got) == {'start', 'stop'} and isinstance(want, list) and len(want) == 2:
        return [got['start'], got['stop']] == want       # a range [a, b] is canonicalised to {'start': a, 'stop': b}
    if isinstance(want, float) or isinstance(got, float):
        try:
            return float(got) == float(want) and not isinstance(got, bool)
        except (TypeError, ValueError):
            return False
    if isinstance(want, (list, tuple)) and isinstance(got, (list, tuple)):
        return list(got) == list(want)
    return got == want and type(got) is type(want) or (got == want and isinstance(want, (int, dict)))


def check_defaults(ctx, name, spec):
    cls = spec['cls']
    if spec.get('positional_required'):
        return
    try:
        obj = construct(cls, spec, {})
    except Exception as exc:  # noqa
        ctx.violation('C20:%s:default_construction_fails' % name, repr(exc), {'class': name})
        return None
    ctx.ev()
    ctx.count('constructions')
    cfg = obj.config
    skip = set(spec.get('skip_config_defaults', []))
    for opt, (default, pools) in spec['options'].items():
        ctx.count('defaults_checked')
        if opt not in cfg:
            ctx.violation('C20:%s:option_missing_from_config' % name, 'obj.config lacks %r' % opt, {'class': name, 'option': opt})
        elif opt in skip and not isinstance(default, str):
            continue
        elif not same_default(cfg[opt], default):
            ctx.violation('C20:%s:default:%s' % (name, opt), 'default of %r is %r, documented %r' % (opt, cfg[opt], default),
                          {'class': name, 'option': opt})
    for opt in spec.get('optional_absent', {}):
        if opt in cfg:
            ctx.violation('C20:%s:optional_key_materialised' % name, '%r present in the default config' % opt, {'class': name})
    extra = set(cfg) - set(spec['options']) - set(spec['required']) - set(spec.get('optional_absent', {})) - skip - {'answers', 'depends', 'shape'}
    if extra and spec['kind'] != 'grader':
        ctx.violation('C20:%s:undocumented_option_in_config' % name, 'obj.config has undocumented keys %r' % sorted(extra), {'class': name})
    return obj


def check_value(ctx, name, spec, opt, value, in_domain, positional=False, extra_cfg=None):
    cls = spec['cls']
    cfg = dict(extra_cfg or {})
    if not positional:
        cfg[opt] = value
    before = state.fp(value)
    ctx.ev()
    ctx.count('constructions')
    wit = {'class': name, 'option': opt, 'value': repr(value)[:120], 'documented_in_domain': in_domain, 'other_options': repr(extra_cfg)[:200] if extra_cfg else None}
    ctx.nontrivial([name, opt, repr(value)[:80], repr(extra_cfg)[:80]])
    try:
        obj = construct(cls, spec, cfg, positional=value if positional else None)
        err = None
    except Exception as exc:  # noqa
        obj, err = None, exc
    if state.fp(value) != before:
        ctx.violation('C20:%s:value_object_modified' % name, 'constructing altered the supplied value of %r' % opt, wit)
    if in_domain:
        if err is not None:
            ctx.violation('C20:%s:in_domain_rejected:%s' % (name, opt), 'documented value %r for %r rejected: %r' % (value, opt, err), wit)
            return None
        ctx.count('in_domain_accepted')
        return obj
    if err is None:
        ctx.violation('C20:%s:out_of_domain_accepted:%s' % (name, opt), 'value %r for %r accepted; config %r' % (value, opt, repr(obj.config.get(opt) if isinstance(obj.config, dict) else obj.config)[:100]), wit)
        return None
    ctx.count('out_of_domain_rejected')
    if not is_validation_error(err):
        ctx.violation('C20:%s:wrong_error_class:%s:%s' % (name, opt, type(err).__name__),
                      'value %r for %r raised %s(%s) instead of a configuration/validation error' % (value, opt, type(err).__name__, str(err)[:100]), wit)
    return None


def check_equivalence(ctx, name, spec, cfg):
    """kwargs form == dict form; for graders Cls(obj.config) == obj."""
    cls = spec['cls']
    sample_answers = {'StringGrader': 'cat', 'FormulaGrader': '1+1', 'NumericalGrader': '2', 'MatrixGrader': '[1,2]',
                      'SingleListGrader': ['a', 'b'], 'IntervalGrader': '[1,2)'}
    if name in sample_answers and 'answers' not in cfg and not cfg.get('validation_pattern'):
        cfg = dict(cfg, answers=sample_answers[name])     # so that answer normalisation takes part in the comparison
    try:
        a = construct(cls, spec, cfg, as_kwargs=True)
        full = {k: mk() for k, mk in spec['required'].items()}
        full.update(cfg)
        b = cls(dict(full))
    except Exception as exc:  # noqa
        return
    ctx.ev(2)
    ctx.count('constructions', 2)
    ctx.count('kwargs_dict_equivalence_cases')
    wit = {'class': name, 'config': repr(cfg)[:300]}
    if spec['required']:
        # freshly made required objects differ by identity only if they are graders: compare configs
        pass
    if not spec['required']:
        same = (a == b)
    else:
        # the required subgrader objects are made fresh for each form: compare everything else, and those by equality
        same = type(a) is type(b) and set(a.config) == set(b.config) and all(a.config[k] == b.config[k] for k in a.config)
    if not same:
        ctx.violation('C20:%s:kwargs_vs_dict' % name, 'Cls(**cfg) != Cls(cfg)', wit)
    if spec['kind'] == 'grader':
        ctx.count('reconstruction_cases')
        try:
            c = cls(a.config)
        except Exception as exc:  # noqa
            ctx.violation('C20:%s:reconstruction_fails' % name, 'Cls(obj.config) raised %r' % (exc,), wit)
            return
        if not (c == a):
            diff = [k for k in a.config if a.config.get(k) != c.config.get(k)]
            ctx.violation('C20:%s:reconstruction_differs' % name, 'Cls(obj.config) != obj (keys %r)' % diff, wit)
        # a dict plus keyword arguments uses the dict
        try:
            d = cls(dict(full), debug=True)
            if 'debug' in d.config and d.config['debug'] is True and not full.get('debug'):
                ctx.count('kwargs_merged_into_dict')
        except Exception:  # noqa
            pass


def run_tables(ctx):
    T = spec_table()
    rng = ctx.rng
    idx = 0
    for name, spec in T.items():
        ctx.count('classes_covered')
        check_defaults(ctx, name, spec) if ctx.shard == 0 or True else None
        # single-option deviations (exhaustive, sharded)
        for opt, (default, (good, bad)) in list(spec['options'].items()) + \
                [(o, (None, p)) for o, p in spec.get('optional_absent', {}).items()] + \
                [(o, (None, p)) for o, p in spec.get('required_pools', {}).items()]:
            for v in good:
                idx += 1
                if ctx.mine(idx):
                    extra = None
                    if name == 'StringGrader' and opt == 'validation_pattern':
                        extra = {'accept_any': True}
                    obj = check_value(ctx, name, spec, opt, v, True, extra_cfg=extra)
                    if obj is not None and spec['kind'] == 'grader':
                        check_equivalence(ctx, name, spec, dict(extra or {}, **{opt: v}))
            for v in bad:
                idx += 1
                if ctx.mine(idx):
                    check_value(ctx, name, spec, opt, v, False)
        if 'positional' in spec:
            for v in spec['positional'][0]:
                idx += 1
                if ctx.mine(idx):
                    obj = check_value(ctx, name, spec, '<positional>', v, True, positional=True)
                    if obj is not None and spec.get('canonical_swap') and isinstance(obj.config, dict):
                        if obj.config['start'] > obj.config['stop']:
                            ctx.violation('C20:%s:bounds_not_normalised' % name, 'config %r' % (obj.config,), {'class': name, 'value': repr(v)})
            for v in spec['positional'][1]:
                idx += 1
                if ctx.mine(idx):
                    check_value(ctx, name, spec, '<positional>', v, False, positional=True)
        # unknown keys and a non-dict positional config
        idx += 1
        if ctx.mine(idx) and not spec.get('positional_required'):
            for key in ('foo', 'Debug', 'answer', ''):
                ctx.count('unknown_key_cases')
                check_value(ctx, name, spec, key, 1, False)
            if 'positional' not in spec:
                for v in ([1, 2], 'config', 5, (('debug', True),)):
                    ctx.count('constructions')
                    ctx.ev()
                    try:
                        spec['cls'](v)
                        ctx.violation('C20:%s:non_dict_config_accepted' % name, 'Cls(%r) accepted' % (v,), {'class': name})
                    except Exception as exc:  # noqa
                        if not is_validation_error(exc):
                            ctx.violation('C20:%s:non_dict_config_error_class:%s' % (name, type(exc).__name__),
                                          'Cls(%r) raised %r' % (v, exc), {'class': name, 'value': repr(v)})
        # random multi-option combinations
        opts = [(o, p) for o, (d, p) in spec['options'].items()]
        if len(opts) >= 2:
            for rep in range(ctx.pick(3, 400)):
                k = rng.randint(2, min(4, len(opts)))
                chosen = rng.sample(opts, k)
                poison = rng.random() < 0.5
                cfg = {}
                for j, (o, (good, bad)) in enumerate(chosen):
                    cfg[o] = rng.choice(bad if (poison and j == 0 and bad) else good)
                ctx.count('multi_option_cases')
                ctx.ev()
                ctx.count('constructions')
                try:
                    obj = construct(spec['cls'], spec, cfg)
                    err = None
                except Exception as exc:  # noqa
                    obj, err = None, exc
                wit = {'class': name, 'config': repr(cfg)[:300], 'poisoned': poison}
                ctx.nontrivial([name, 'multi', repr(cfg)[:200]])
                if poison and err is None:
                    ctx.violation('C20:%s:out_of_domain_accepted:multi' % name, 'config with an out-of-domain value accepted', wit)
                elif err is not None and not is_validation_error(err):
                    ctx.violation('C20:%s:wrong_error_class:multi:%s' % (name, type(err).__name__), repr(err)[:200], wit)
                elif not poison and err is not None:
                    # in-domain values may still break a cross-option rule; only plain validation errors are tolerated
                    ctx.count('multi_option_cross_rule_rejections')
                elif obj is not None and spec['kind'] == 'grader':
                    check_equivalence(ctx, name, spec, cfg)


def run_cross_rules(ctx):
    import mitxgraders as M
    S = M.StringGrader
    cases = [
        ('whitelist_and_blacklist', lambda: M.FormulaGrader(whitelist=['sin'], blacklist=['cos'])),
        ('whitelist_and_blacklist', lambda: M.SumGrader(answers={'lower': '1', 'upper': '2', 'summand': 'n', 'summation_variable': 'n'}, whitelist=['sin'], blacklist=['cos'])),
        ('unordered_with_subgrader_list', lambda: M.ListGrader(answers=['a', 'b'], subgraders=[S(), S()], ordered=False)),
        ('subgrader_count_mismatch', lambda: M.ListGrader(answers=['a', 'b', 'c'], subgraders=[S(), S()], ordered=True)),
        ('grouping_not_contiguous', lambda: M.ListGrader(answers=[['a', 'b'], ['c', 'd']], subgraders=M.ListGrader(subgraders=S()), grouping=[1, 1, 3, 3])),
        ('grouping_not_contiguous', lambda: M.ListGrader(answers=[['a', 'b'], ['c', 'd']], subgraders=M.ListGrader(subgraders=S()), grouping=[2, 2, 3, 3])),
        ('grouping_needs_listgrader', lambda: M.ListGrader(answers=['a', 'b'], subgraders=S(), grouping=[1, 1, 2, 2])),
        ('grouping_item_grader_for_group', lambda: M.ListGrader(answers=['a', 'b'], subgraders=[S(), S()], ordered=True, grouping=[1, 2, 2])),
        ('grouping_item_grader_for_group', lambda: M.ListGrader(answers=['a', 'b'], subgraders=[S(), S()], ordered=True, grouping=[1, 1, 1, 2])),
        ('grouping_subgrader_count', lambda: M.ListGrader(answers=['a', 'b'], subgraders=[S(), S()], ordered=True, grouping=[1, 2, 3])),
        ('unordered_unequal_groups', lambda: M.ListGrader(answers=[['a', 'b'], ['c']], subgraders=M.ListGrader(subgraders=S()), grouping=[1, 1, 2])),
        ('nested_same_delimiter', lambda: M.SingleListGrader(subgrader=M.SingleListGrader(subgrader=S()), answers=[['a']])),
        ('nested_same_delimiter', lambda: M.SingleListGrader(delimiter=';', subgrader=M.SingleListGrader(delimiter=',', subgrader=M.SingleListGrader(delimiter=';', subgrader=S())))),
        ('name_collision', lambda: M.FormulaGrader(variables=['x'], user_constants={'x': 1})),
        # suppress_warnings excuses overriding DEFAULTS, not a name declared twice
        ('name_collision_despite_suppress_warnings', lambda: M.FormulaGrader(variables=['x'], user_constants={'x': 1}, suppress_warnings=True)),
        ('name_collision_despite_suppress_warnings', lambda: M.MatrixGrader(variables=['m', 'c'], user_constants={'c': 3e8}, suppress_warnings=True)),
        ('name_collision_despite_suppress_warnings', lambda: M.SumGrader(answers={'lower': '1', 'upper': '2', 'summand': 'n', 'summation_variable': 'n'},
                                                                         variables=['c'], user_constants={'c': 2}, suppress_warnings=True)),
        ('override_default_constant', lambda: M.FormulaGrader(variables=['pi'])),
        ('override_default_constant', lambda: M.FormulaGrader(user_constants={'e': 3})),
        ('override_default_constant', lambda: M.FormulaGrader(numbered_vars=['i'])),
        # infty is a default constant of every grader that allows infinities
        ('override_default_constant', lambda: M.FormulaGrader(allow_inf=True, variables=['infty'])),
        ('override_default_constant', lambda: M.NumericalGrader(allow_inf=True, user_constants={'infty': 5})),
        ('override_default_constant', lambda: M.FormulaGrader(allow_inf=True, numbered_vars=['infty'])),
        # the rule reads the class defaults, not what an earlier grader did with its own copy of them
        ('override_default_constant_after_another_grader_deleted_it', lambda: (
            M.SumGrader(answers={'lower': '1', 'upper': '2', 'summand': 'n', 'summation_variable': 'n'}, user_constants={'pi': None}),
            M.SumGrader(answers={'lower': '1', 'upper': '2', 'summand': 'n', 'summation_variable': 'n'}, variables=['pi']))[1]),
        ('override_default_constant_after_another_grader_deleted_it', lambda: (
            M.SumGrader(answers={'lower': '1', 'upper': '2', 'summand': 'n', 'summation_variable': 'n'}, user_constants={'infty': None, 'e': None}),
            M.SumGrader(answers={'lower': '1', 'upper': '2', 'summand': 'n', 'summation_variable': 'n'}, user_constants={'infty': 5}))[1]),
        ('override_default_constant_after_another_grader_deleted_it', lambda: (
            M.FormulaGrader(user_constants={'e': None, 'pi': None}), M.FormulaGrader(variables=['e']))[1]),
        ('override_default_constant_after_another_grader_deleted_it', lambda: (
            M.MatrixGrader(user_constants={'i': None}), M.NumericalGrader(user_constants={'j': None}), M.MatrixGrader(numbered_vars=['i']))[2]),
        ('override_default_function', lambda: M.FormulaGrader(user_functions={'sin': abs})),
        ('override_default_function', lambda: M.MatrixGrader(user_functions={'det': abs})),
        ('sample_from_unknown_variable', lambda: M.FormulaGrader(variables=['x'], sample_from={'y': [1, 2]})),
        ('single_answer_list', lambda: M.ListGrader(answers=['a'], subgraders=S())),
        ('answer_lists_different_length', lambda: M.ListGrader(answers=(['a', 'b'], ['c']), subgraders=S())),
        ('answer_lists_different_length', lambda: M.SingleListGrader(answers=(['a', 'b'], ['c']), subgrader=S())),
        ('answer_lists_different_length', lambda: M.SingleListGrader(answers={'expect': (['a', 'b'], ['a', 'b', 'c'])}, subgrader=S())),
        ('answer_lists_different_length', lambda: M.SingleListGrader(answers={'expect': ('a, b', 'a, b, c')}, subgrader=S())),
        ('answer_lists_different_length', lambda: M.SingleListGrader(answers=({'expect': (['a', 'b'], ['c', 'd'])}, {'expect': (['e', 'f'], ['g'])}), subgrader=S())),
        ('answer_lists_different_length', lambda: M.ListGrader(answers=[{'expect': (['a', 'b'], ['a', 'b', 'c'])}, ['x']],
                                                               subgraders=M.SingleListGrader(subgrader=S()))),
        ('empty_answer_item', lambda: M.SingleListGrader(answers=['a', ''], subgrader=S())),
        ('interval_bad_bracket', lambda: M.IntervalGrader(answers='{1,2}')),
        ('interval_bad_bracket', lambda: M.IntervalGrader(answers=['[', '1', '2', '>'])),
        ('interval_wrong_length', lambda: M.IntervalGrader(answers=['[', '1', ']'])),
        ('interval_empty_bound', lambda: M.IntervalGrader(answers=['[', '', '1', ']'])), ('interval_empty_bound', lambda: M.IntervalGrader(answers='[ , 1]')),
        ('interval_empty_bound', lambda: M.IntervalGrader(answers=['[', '0', '  ', ')'])), ('interval_empty_bound', lambda: M.IntervalGrader(answers=('[0,1]', '[0, ]'))),
        ('interval_empty_bound', lambda: M.ListGrader(answers=['[0,1]', '[ ,2]'], subgraders=M.IntervalGrader())),
        ('nested_same_delimiter', lambda: M.SingleListGrader(subgrader=M.IntervalGrader())),
        ('nested_same_delimiter', lambda: M.SingleListGrader(delimiter=';', subgrader=M.IntervalGrader(delimiter=';'))),
        ('nested_same_delimiter', lambda: M.SingleListGrader(delimiter=',', subgrader=M.SingleListGrader(delimiter=';', subgrader=M.IntervalGrader()))),
        ('interval_answer_unreadable', lambda: M.IntervalGrader(answers='[1]')), ('interval_answer_unreadable', lambda: M.IntervalGrader(answers='[]')),
        ('interval_answer_unreadable', lambda: M.IntervalGrader(answers=('[1,2]', '[3]'))),
        ('interval_bracket_not_single_character', lambda: M.IntervalGrader(answers=['[(', '1', '2', ']'])),
        ('interval_bracket_not_single_character', lambda: M.IntervalGrader(answers=['[', '1', '2', '])'])),
        ('empty_answer_list', lambda: M.SingleListGrader(answers=[], subgrader=S())),
        ('empty_answer_list', lambda: M.SingleListGrader(answers=([],), subgrader=S())),
        ('unordered_unequal_groups', lambda: M.ListGrader(answers=[['a', 'b'], ['c', 'd']], subgraders=M.ListGrader(subgraders=S()),
                                                          grouping=[1, 1, 1, 2], ordered=False)),
        ('square_matrices_impossible', lambda: M.SquareMatrices(dimension=3, symmetry='antisymmetric', determinant=1)),
        ('square_matrices_impossible', lambda: M.SquareMatrices(determinant=0, traceless=True)),
        ('specify_domain_min_length', lambda: M.helpers.calc.specify_domain(input_shapes=[1, 2], min_length=2) if hasattr(M, 'helpers') else (_ for _ in ()).throw(M.ConfigError('x'))),
        ('numerical_with_random_function', lambda: M.NumericalGrader(user_functions={'f': M.RandomFunction()})),
        ('grade_out_of_range', lambda: S(answers={'expect': 'a', 'grade_decimal': 1.5})),
        ('grade_out_of_range', lambda: S(answers={'expect': 'a', 'grade_decimal': NAN})),
        ('grade_out_of_range', lambda: M.FormulaGrader(answers=({'expect': 'x', 'grade_decimal': 1}, {'expect': '2*x', 'grade_decimal': NAN}), variables=['x'])),
        ('answer_bad_ok', lambda: S(answers={'expect': 'a', 'ok': 'maybe'})),
        ('answer_unknown_key', lambda: S(answers={'expect': 'a', 'foo': 1})),
        ('answer_missing_expect', lambda: S(answers={'grade_decimal': 1})),
        ('comparer_wrong_arity', lambda: M.FormulaGrader(answers={'comparer': lambda a, b: True, 'comparer_params': ['x']})),
        ('comparer_params_not_list', lambda: M.FormulaGrader(answers={'comparer': M.equality_comparer, 'comparer_params': 'x'})),
    ]
    for kind, make in cases:
        ctx.ev()
        ctx.count('constructions')
        ctx.count('cross_rule_cases')
        ctx.nontrivial(['cross', kind, cases.index((kind, make))])
        try:
            obj = make()
            ctx.violation('C20:cross_rule_not_enforced:' + kind, 'construction succeeded: %r' % (type(obj).__name__,), {'rule': kind})
        except Exception as exc:  # noqa
            if not is_validation_error(exc):
                ctx.violation('C20:cross_rule_error_class:%s:%s' % (kind, type(exc).__name__), repr(exc)[:200], {'rule': kind})
    # documented normalisations of one option by another
    for kind, make, key, want in [
            ('hermitian_is_complex', lambda: M.SquareMatrices(symmetry='hermitian'), 'complex', True),
            ('antihermitian_is_complex', lambda: M.SquareMatrices(symmetry='antihermitian'), 'complex', True),
            ('antihermitian_is_complex', lambda: M.SquareMatrices(symmetry='antihermitian', complex=False, dimension=3), 'complex', True),
            ('symmetric_stays_real', lambda: M.SquareMatrices(symmetry='symmetric'), 'complex', False),
            # an option whose documented default is computed: None, given explicitly, is the same as leaving it out
            ('interval_subgrader_none_is_default', lambda: M.IntervalGrader(subgrader=None) == M.IntervalGrader() and M.IntervalGrader({'subgrader': None, 'answers': '[1,2]'}), 'delimiter', ','),
            ('suppressed_override_of_infty_kept', lambda: M.NumericalGrader(allow_inf=True, user_constants={'infty': 5}, suppress_warnings=True, answers='5')(None, 'infty')['ok'] is True and M.NumericalGrader(), 'debug', False)]:
        ctx.ev()
        ctx.count('constructions')
        ctx.count('normalisation_checks')
        try:
            obj = make()
        except Exception as exc:  # noqa
            ctx.violation('C20:legal_configuration_rejected:' + kind, repr(exc)[:200], {'rule': kind})
            continue
        if obj is False or (obj.config.get(key) is not want and obj.config.get(key) != want):
            if obj is False:
                ctx.violation('C20:documented_normalisation:' + kind, 'the documented equivalence does not hold', {'rule': kind})
                continue
            ctx.violation('C20:documented_normalisation:' + kind, 'config[%r] is %r, documented: %r' % (key, obj.config.get(key), want), {'rule': kind})
    # positive controls: the same constructions made legal
    for kind, make in [
            ('suppress_warnings', lambda: M.FormulaGrader(variables=['pi'], suppress_warnings=True)),
            ('ordered_with_subgrader_list', lambda: M.ListGrader(answers=['a', 'b'], subgraders=[S(), S()], ordered=True)),
            ('valid_grouping', lambda: M.ListGrader(answers=[['a', 'b'], ['c', 'd']], subgraders=M.ListGrader(subgraders=S()), grouping=[1, 2, 1, 2])),
            ('distinct_delimiters', lambda: M.SingleListGrader(delimiter=';', subgrader=M.SingleListGrader(delimiter=',', subgrader=S()))),
            ('distinct_delimiters', lambda: M.SingleListGrader(delimiter=';', subgrader=M.IntervalGrader())),
            ('delete_default_constant', lambda: M.FormulaGrader(user_constants={'e': None}, variables=['e'])),
            ('delete_a_constant_that_does_not_exist', lambda: M.FormulaGrader(user_constants={'foo': None, 'c': 2.0})),
            ('whitelist_none', lambda: M.FormulaGrader(whitelist=[None]))]:
        ctx.ev()
        ctx.count('constructions')
        try:
            make()
            ctx.count('in_domain_accepted')
        except Exception as exc:  # noqa
            ctx.violation('C20:legal_configuration_rejected:' + kind, repr(exc)[:200], {'rule': kind})


def canonical_item_answers(ans):
    if not isinstance(ans, tuple):
        return 'answers is %s, not a tuple' % type(ans).__name__
    for a in ans:
        if not isinstance(a, dict) or set(a) != {'expect', 'grade_decimal', 'msg', 'ok'}:
            return 'entry %r is not a dict with keys expect/grade_decimal/msg/ok' % (a,)
        if not isinstance(a['expect'], tuple):
            return 'expect %r is not a tuple' % (a['expect'],)
        if a['ok'] not in (True, False, 'partial'):
            return 'ok %r' % (a['ok'],)
        g = a['grade_decimal']
        if g != 1 and a['ok'] != (False if g == 0 else 'partial'):
            return 'ok %r contradicts grade_decimal %r (an explicit ok is documented as ignored unless the credit is 1)' % (a['ok'], g)
    return None


def run_answers(ctx):
    import mitxgraders as M
    S = M.StringGrader
    formats = [
        ('string', lambda: S(answers='cat'), 1), ('dict', lambda: S(answers={'expect': 'cat', 'grade_decimal': 0.5, 'msg': 'm'}), 1),
        ('tuple_of_strings', lambda: S(answers=('cat', 'dog')), 2), ('tuple_mixed', lambda: S(answers=('cat', {'expect': 'dog', 'ok': 'partial'})), 2),
        ('expect_tuple', lambda: S(answers={'expect': ('cat', 'dog'), 'msg': 'm'}), 1),
        ('explicit_ok_with_partial_credit', lambda: S(answers={'expect': 'cat', 'ok': True, 'grade_decimal': 0.5}), 1),
        ('explicit_ok_with_zero_credit', lambda: S(answers=({'expect': 'cat', 'ok': 'partial', 'grade_decimal': 0}, {'expect': 'dog', 'ok': False, 'grade_decimal': 0.25})), 2),
        ('explicit_ok_with_full_credit', lambda: S(answers={'expect': 'cat', 'ok': 'partial', 'grade_decimal': 1}), 1),
        ('explicit_ok_in_list_item', lambda: M.SingleListGrader(answers=[{'expect': 'a', 'ok': True, 'grade_decimal': 0.3}, 'b'], subgrader=S()), 1),
        ('formula_string', lambda: M.FormulaGrader(answers='x', variables=['x']), 1),
        ('formula_comparer_dict', lambda: M.FormulaGrader(answers={'comparer': M.equality_comparer, 'comparer_params': ['x']}, variables=['x']), 1),
        ('formula_expect_comparer', lambda: M.FormulaGrader(answers={'expect': {'comparer': M.equality_comparer, 'comparer_params': ['x']}, 'msg': 'm'}, variables=['x']), 1),
        ('numerical_tuple', lambda: M.NumericalGrader(answers=('1', {'expect': ('2', '3'), 'grade_decimal': 0.5})), 2),
        ('single_list', lambda: M.SingleListGrader(answers=['a', 'b'], subgrader=S()), 1),
        ('single_list_string', lambda: M.SingleListGrader(answers='a, b', subgrader=S()), 1),
        ('single_list_tuple', lambda: M.SingleListGrader(answers=(['a', 'b'], {'expect': ['c', 'd'], 'grade_decimal': 0.5}), subgrader=S()), 2),
        ('single_list_items_with_alternatives', lambda: M.SingleListGrader(answers=[('a', 'A'), {'expect': 'b', 'msg': 'm'}], subgrader=S()), 1),
        ('interval_string', lambda: M.IntervalGrader(answers='[1,2)'), 1),
        ('interval_list', lambda: M.IntervalGrader(answers=['[', '1', '2', ')']), 1),
    ]
    for name, make, n in formats:
        ctx.ev()
        ctx.count('constructions')
        ctx.count('answers_format_cases')
        ctx.nontrivial(['answers', name])
        try:
            g = make()
        except Exception as exc:  # noqa
            ctx.violation('C20:answers_format_rejected:' + name, repr(exc)[:200], {'format': name})
            continue
        prob = canonical_item_answers(g.config['answers'])
        if prob or len(g.config['answers']) != n:
            ctx.violation('C20:answers_not_canonical:' + name, prob or 'expected %d alternatives, got %d' % (n, len(g.config['answers'])),
                          {'format': name, 'answers': repr(g.config['answers'])[:300]})
        try:
            again = type(g)(g.config)
            if not (again == g):
                ctx.violation('C20:reconstruction_differs:' + name, 'Cls(obj.config) != obj', {'format': name})
            ctx.count('reconstruction_cases')
        except Exception as exc:  # noqa
            ctx.violation('C20:reconstruction_fails:' + name, repr(exc)[:200], {'format': name})
    # list graders: list, tuple of lists
    for name, make in [('list', lambda: M.ListGrader(answers=['a', ('b', 'B')], subgraders=S())),
                       ('tuple_of_lists', lambda: M.ListGrader(answers=(['a', 'b'], ['c', {'expect': 'd', 'grade_decimal': 0.5}]), subgraders=S())),
                       ('nested', lambda: M.ListGrader(answers=[['a', 'b'], ['c', 'd']], subgraders=M.ListGrader(subgraders=S()), grouping=[1, 1, 2, 2]))]:
        ctx.ev()
        ctx.count('constructions')
        ctx.count('answers_format_cases')
        try:
            g = make()
        except Exception as exc:  # noqa
            ctx.violation('C20:answers_format_rejected:' + name, repr(exc)[:200], {'format': name})
            continue
        ans = g.config['answers']
        if not isinstance(ans, tuple) or not all(isinstance(l, list) for l in ans):
            ctx.violation('C20:answers_not_canonical:list:' + name, 'answers %r' % (ans,), {'format': name})
        elif name != 'nested' and any(canonical_item_answers(item) for l in ans for item in l):
            ctx.violation('C20:answers_not_canonical:list_items:' + name, repr(ans)[:300], {'format': name})
        try:
            if not (type(g)(g.config) == g):
                ctx.violation('C20:reconstruction_differs:' + name, 'Cls(obj.config) != obj', {'format': name})
            ctx.count('reconstruction_cases')
        except Exception as exc:  # noqa
            ctx.violation('C20:reconstruction_fails:' + name, repr(exc)[:200], {'format': name})


def _grader_classes_in(obj, seen=None):
    """Classes of the library objects found (recursively) in an object's configuration."""
    from mitxgraders.baseclasses import ObjectWithSchema
    seen = set() if seen is None else seen

    def walk(v):
        if isinstance(v, ObjectWithSchema):
            if type(v) not in seen:
                seen.add(type(v))
                walk(v.config)
        elif isinstance(v, dict):
            for x in v.values():
                walk(x)
        elif isinstance(v, (list, tuple)):
            for x in v:
                walk(x)
    walk(getattr(obj, 'config', {}))
    return seen


def run_defaults_beside_registrations(ctx):
    """Documented defaults hold for every option NOT registered for the class, whatever has been registered -- from one shared
    dictionary or separately -- on the class itself and on unrelated classes (docs/plugins.md)."""
    T = spec_table()
    rng = ctx.rng
    graders = [(n, sp) for n, sp in T.items() if sp['kind'] == 'grader' and not sp.get('positional_required')]
    for rep in range(ctx.pick(12, 80)):
        (tn, tsp), (on, osp) = rng.sample(graders, 2)
        tcls, ocls = tsp['cls'], osp['cls']
        if issubclass(tcls, ocls) or issubclass(ocls, tcls):
            continue            # (a class's registered defaults reach its subclasses by design)
        # ... and, equally by design, the graders an object builds for itself (IntervalGrader's default NumericalGrader subgrader, the
        # subgraders of the required options): a default registered for THEIR class chain is theirs to honour or to refuse
        try:
            helpers = _grader_classes_in(construct(tcls, tsp, {}))
        except Exception:  # noqa
            continue
        if any(issubclass(h, ocls) or issubclass(ocls, h) for h in helpers):
            ctx.count('defaults_beside_registrations_skipped_helper_of_that_class')
            continue
        shared = {'debug': True}
        other_only = rng.choice([o for o in osp['options'] if o != 'debug'])
        good = osp['options'][other_only][1][0]
        if not good:
            continue
        later = {other_only: rng.choice(good)}
        wit = {'class': tn, 'shared_dictionary_registered_on': [tn, on], 'then_registered_on_%s' % on: repr(later)[:120]}
        try:
            order = [tcls, ocls]
            rng.shuffle(order)
            for c in order:
                c.register_defaults(shared)
            ocls.register_defaults(later)
            ctx.count('defaults_beside_registrations')
            try:
                obj = construct(tcls, tsp, {})
            except Exception as exc:  # noqa
                ctx.violation('C20:%s:registered_elsewhere:default_construction_fails' % tn, repr(exc)[:200], wit)
                continue
            ctx.ev()
            ctx.count('constructions')
            skip = set(tsp.get('skip_config_defaults', []))
            for opt, (default, pools) in tsp['options'].items():
                if opt == 'debug' or opt not in obj.config or (opt in skip and not isinstance(default, str)):
                    continue
                ctx.count('defaults_checked')
                if not same_default(obj.config[opt], default):
                    ctx.violation('C20:%s:registered_elsewhere:default:%s' % (tn, opt),
                                  'default of %r is %r, documented %r' % (opt, obj.config[opt], default), dict(wit, option=opt))
            if obj.config.get('debug') is not True:
                ctx.violation('C20:%s:registered_default_not_applied' % tn, 'debug=%r' % obj.config.get('debug'), wit)
        finally:
            tcls.clear_registered_defaults()
            ocls.clear_registered_defaults()


def run_registered_precedence(ctx):
    """Defaults registered on several levels of one class chain: the most derived class's value is the default of its instances, the
    others fill in what it did not register (plugins/defaults_sample.py), in whatever order the registrations were made."""
    import mitxgraders as M
    from mitxgraders.baseclasses import AbstractGrader, ItemGrader
    rng = ctx.rng
    chains = [(M.NumericalGrader, M.FormulaGrader, {'answers': '1'}), (M.MatrixGrader, M.FormulaGrader, {'answers': '[1,2]'}), (M.StringGrader, ItemGrader, {'answers': 'cat'}),
              (M.StringGrader, AbstractGrader, {'answers': 'cat'}), (M.FormulaGrader, ItemGrader, {'answers': 'x', 'variables': ['x']}), (M.IntervalGrader, M.SingleListGrader, {'answers': '[1,2]'})]
    for rep in range(ctx.pick(10, 60)):
        sub, sup, cfg = rng.choice(chains)
        regs = [(sup, {'wrong_msg': 'SUP', 'debug': True}), (sub, {'wrong_msg': 'SUB'})]
        rng.shuffle(regs)
        try:
            for cls, d in regs:
                cls.register_defaults(d)
            ctx.count('registered_precedence_cases')
            wit = {'class': sub.__name__, 'superclass': sup.__name__, 'registration_order': [c.__name__ for c, _ in regs]}
            try:
                obj = sub(**cfg)
            except Exception as exc:  # noqa
                ctx.violation('C20:%s:registered_precedence:construction_fails' % sub.__name__, repr(exc)[:200], wit)
                continue
            ctx.ev()
            ctx.count('constructions')
            if obj.config['wrong_msg'] != 'SUB' or obj.config['debug'] is not True:
                ctx.violation('C20:registered_precedence:' + ('superclass_wins' if obj.config['wrong_msg'] == 'SUP' else 'lost'),
                              '%s: wrong_msg=%r debug=%r; registered for it: SUB, inherited: debug=True' % (sub.__name__, obj.config['wrong_msg'], obj.config['debug']), wit)
            explicit = sub(wrong_msg='MINE', **cfg)
            if explicit.config['wrong_msg'] != 'MINE':
                ctx.violation('C20:registered_precedence:explicit_option_overridden', repr(explicit.config['wrong_msg']), wit)
        finally:
            for cls, _ in regs:
                cls.clear_registered_defaults()


def run(ctx):
    run_tables(ctx)
    if ctx.shard % 4 == 0:
        run_defaults_beside_registrations(ctx)
        run_registered_precedence(ctx)
        run_cross_rules(ctx)
        run_answers(ctx)
    if ctx.shard == 0:
        ctx.sample({'class': 'StringGrader', 'option': 'min_length', 'in_domain': [0, 1, 7], 'out_of_domain': [-1, 1.5, '1', None, [1], '1j']})
        ctx.sample({'cross_rule': 'unordered ListGrader with a list of subgraders', 'expected': 'ConfigError'})
