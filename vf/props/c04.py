"""
C04 -- a formula is marked correct exactly when enough samples agree within tolerance.

Oracle: per-sample tolerance arithmetic on *known* samples: variables are sampled from a
harness-defined Scripted sampling set, answers/submissions come from formula families whose
values the oracle knows in closed form.  Monitors: (a) the grader verdict/credit vs
"failures = #{i: |e_i - s_i| > tol_i} <= failable_evals"; (b) a tap on the within_tolerance
binding used by the graders: every (expected, student, tolerance) -> verdict the library
computed is re-decided by the oracle, including the argument order (expected first).
"""
import math

import numpy as np

from vf import lib

RULE = ('tolerances {0, 1e-9, 0.01, 2, 0%, 0.01%, 5%, 10%, 25%} x samples 1-7 x failable_evals 0-3 x '
        'scalar / complex / vector / matrix answers in Formula/Numerical/Matrix graders x answer credit '
        '{1, 0.5}; submissions answer+delta, answer*(1+eps) with |miss|/tolerance in {0, .5, .99, 1.01, 2, '
        '100}, sign/branch variants agreeing on a chosen number of samples, bit-exact rewrites at '
        'tolerance 0, exact integer boundary cases, infinities. A guard band of 1e-9 relative around '
        'the boundary is excluded (except exact integer cases). Non-trivial = at least one sample '
        'decides differently from another, or the miss is within a factor 2 of the tolerance; '
        'distinct by full case description.')
ASSUMPTIONS = ['oracle values computed with Python floats from closed forms; cases whose margin to the '
               'tolerance boundary is < 1e-9 relative are skipped (counted)',
               'percentage tolerance = p% of the Frobenius norm of the AUTHOR value']

TAP = {'events': []}


def gates(tier):
    return {'identity_law_calls': 3000, 'numbered_only_cases': 300, 'constant_shadowing_cases': 300, 'dependent_chain_cases': 100, 'grader_calls': 5000, 'expected_correct': 1200, 'expected_incorrect': 1500,
            'partial_failure_patterns': 600, 'boundary_exact_cases': 200, 'tap_events': 15000,
            'tap_percent_events': 3000, 'array_cases': 800, 'inf_cases': 40, 'rewrite_cases': 300,
            'relative_operand_discriminating': 40, 'norm_discriminating': 24, 'default_comparer_scope_cases': 12, 'sibling_value_cases': 40}


# ----------------------------------------------------------------------------- tap
def install_tap(ctx):
    from mitxgraders.helpers import math_helpers
    from mitxgraders.formulagrader import matrixgrader
    from mitxgraders.helpers.calc import mathfuncs
    if getattr(math_helpers.within_tolerance, '_vf', False):
        return
    orig = mathfuncs.within_tolerance

    def tapped(x, y, tolerance):
        out = orig(x, y, tolerance)
        TAP['events'].append((x, y, tolerance, out))
        return out
    tapped._vf = True
    math_helpers.within_tolerance = tapped
    matrixgrader.within_tolerance = tapped


def oracle_within(e, s, tolerance):
    """(verdict, margin) with margin = relative distance from the decision boundary."""
    if not isinstance(e, np.ndarray) and not isinstance(s, np.ndarray):
        inf = float('inf')
        if e in (inf, -inf) or s in (inf, -inf):
            return e == s, 1.0
    ea, sa = np.asarray(e), np.asarray(s)
    diff = float(np.sqrt(np.sum(np.abs(ea - sa) ** 2)))
    if isinstance(tolerance, str):
        tol = float(np.sqrt(np.sum(np.abs(ea) ** 2))) * (float(tolerance.strip()[:-1]) * 0.01)
    else:
        tol = float(tolerance)
    scale = max(tol, diff, 1e-300)
    return diff <= tol, abs(diff - tol) / scale


def drain_tap(ctx, expected_pairs, tolerance, wit):
    """Check every comparison the library made during the last call."""
    events, TAP['events'] = TAP['events'], []
    for x, y, tol, verdict in events:
        ctx.count('tap_events')
        if isinstance(tol, str):
            ctx.count('tap_percent_events')
        want, margin = oracle_within(x, y, tol)
        if margin < 1e-12 and margin != 0:
            ctx.count('tap_skipped_guard_band')
            continue
        if bool(verdict) != want:
            ctx.violation('C04:tap:per_sample_decision:' + ('percent' if isinstance(tol, str) else 'absolute'),
                          'within_tolerance(%r, %r, %r) decided %r; |x-y| <= tol is %r' % (x, y, tol, verdict, want),
                          dict(wit, x=x, y=y))
    # argument order: the author's value must be the first argument (percentage refers to it)
    if expected_pairs is not None and events:
        firsts = [ev[0] for ev in events[:len(expected_pairs)]]
        for (e, s), first, ev in zip(expected_pairs, firsts, events):
            if not _same(first, e) and _same(first, s) and not _same(e, s):
                ctx.violation('C04:tap:argument_order', 'comparison received the student value first (expected %r, student %r)' % (e, s), wit)
                break


def _same(a, b):
    try:
        a_, b_ = np.asarray(a, dtype=complex), np.asarray(b, dtype=complex)
        return a_.shape == b_.shape and bool(np.all(np.abs(a_ - b_) <= 1e-9 * np.maximum(1, np.abs(b_))))
    except (TypeError, ValueError):
        return False


# ----------------------------------------------------------------------------- families
SCALAR_FAMILIES = [
    ('x^2+1', lambda x, y: x * x + 1),
    ('3*x-y', lambda x, y: 3 * x - y),
    ('x*y+2', lambda x, y: x * y + 2),
    ('exp(x/4)', lambda x, y: math.exp(x / 4)),
    ('x+i*y', lambda x, y: complex(x, y)),
    ('(x+i)*(y-2*i)', lambda x, y: complex(x, 1) * complex(y, -2)),
]
ARRAY_FAMILIES = [
    ('[x,2*y,1]', lambda x, y: np.array([x, 2 * y, 1.0])),
    ('[[x,1],[y,2*x]]', lambda x, y: np.array([[x, 1.0], [y, 2 * x]])),
    ('[x+i,y]', lambda x, y: np.array([complex(x, 1), y])),
    ('[3*x,4*x,0,y]', lambda x, y: np.array([3 * x, 4 * x, 0.0, y])),
]
TOLERANCES = [0, 1e-9, 0.01, 2, '0%', '0.01%', '5%', '10%', '25%', '0.00001%', '1e-6%', '0.0004%']
RATIOS = [0.0, 0.5, 0.99, 1.01, 2.0, 100.0]


def tol_of(tolerance, e):
    if isinstance(tolerance, str):
        return float(np.sqrt(np.sum(np.abs(np.asarray(e)) ** 2))) * float(tolerance[:-1]) * 0.01
    return float(tolerance)


def arr_lit(a):
    if a.ndim == 2:
        return '[' + ','.join(arr_lit(r) for r in a) + ']'
    return '[' + ','.join(num_lit(v) for v in a) + ']'


def num_lit(v):
    v = complex(v)
    if v.imag == 0:
        return repr(float(v.real)) if v.real >= 0 else '(0-%r)' % float(-v.real)
    return '(%r+%r*i)' % (float(v.real), float(v.imag)) if v.imag >= 0 else '(%r-%r*i)' % (float(v.real), float(-v.imag))


def decide(es, ss, tolerance, failable):
    """Oracle verdict for per-sample values; returns (correct, min_margin, pattern)."""
    fails, margins, pattern = 0, [], []
    for e, s in zip(es, ss):
        ok, margin = oracle_within(e, s, tolerance)
        margins.append(margin)
        pattern.append(ok)
        if not ok:
            fails += 1
    n = len(es)
    allowed = 0 if n == 1 else failable
    return fails <= allowed, min(margins), pattern, fails


def run_case(ctx, cls_name, ans, student, xs, ys, es, ss, tolerance, failable, credit, wit, exact=False, extra_cfg=None):
    from mitxgraders import FormulaGrader, NumericalGrader, MatrixGrader
    cls = {'FormulaGrader': FormulaGrader, 'NumericalGrader': NumericalGrader, 'MatrixGrader': MatrixGrader}[cls_name]
    correct, margin, pattern, fails = decide(es, ss, tolerance, failable)
    if not exact and margin < 1e-9:
        ctx.count('skipped_guard_band')
        return
    cfg = {'answers': {'expect': ans, 'grade_decimal': credit}, 'tolerance': tolerance}
    if cls_name != 'NumericalGrader':
        cfg.update({'variables': ['x', 'y'], 'samples': len(xs), 'failable_evals': failable,
                    'sample_from': {'x': lib.Scripted(values=list(xs)), 'y': lib.Scripted(values=list(ys))}})
    if cls_name == 'MatrixGrader':
        cfg['max_array_dim'] = 2
    if extra_cfg:
        cfg.update(extra_cfg)
    # options that have no bearing on these formulas must not change the verdict ("bystanders")
    by = {}
    if ctx.rng.random() < 0.4:
        pool = [('suppress_warnings', True), ('wrong_msg', 'nope'), ('forbidden_strings', ['zzz', 'x*x*x*x']), ('forbidden_message', 'F')]
        if cls_name != 'NumericalGrader':
            pool += [('metric_suffixes', True), ('blacklist', ['arccos', 'floor']), ('whitelist', ['abs', 'sqrt', 'sin', 'cos', 'exp', 're', 'im', 'conj']),
                     ('user_constants', {'unusedc': 4.2}), ('user_functions', {'unusedf': abs}), ('allow_inf', True),
                     ('required_functions', [])]
        for k_, v_ in ctx.rng.sample(pool, ctx.rng.randint(1, 3)):
            by[k_] = v_
        if 'blacklist' in by and 'whitelist' in by:
            del by['whitelist']
        if 'allow_inf' in by and cls_name == 'MatrixGrader':
            del by['allow_inf']
        if extra_cfg:
            for k_ in list(by):
                if k_ in extra_cfg:
                    del by[k_]
        cfg.update(by)
        ctx.count('bystander_option_cases')
    debug = ctx.counters['grader_calls'] % 6 == 5
    if debug:
        cfg['debug'] = True       # the debug path logs every comparison; the verdict is the same
        ctx.count('debug_grader_calls')
    g = cls(**cfg)
    TAP['events'] = []
    out = lib.call(ctx, g, None, student)
    ctx.ev()
    ctx.count('grader_calls')
    wit = dict(wit, grader=cls_name, answer=ans, submission=student, x_samples=list(xs), y_samples=list(ys),
               tolerance=tolerance, failable_evals=failable, credit=credit, oracle_pattern=pattern,
               oracle_failures=fails, debug=debug, bystander_options=by, outcome=out.brief())
    if not out.returned:
        ctx.violation('C04:raises:' + cls_name, 'grading raised %r' % (out.exc,), wit)
        return
    r = out.value
    got = r['grade_decimal'] > 0
    if correct:
        ctx.count('expected_correct')
        if abs(r['grade_decimal'] - credit) > 1e-12 or r['ok'] != (True if credit == 1 else 'partial'):
            kind = 'exact_boundary' if exact else ('within_failable' if fails else 'all_within')
            ctx.violation('C04:rejected_although_within:%s:%s' % (kind, 'percent' if isinstance(tolerance, str) else 'absolute'),
                          '%d of %d samples miss (allowed %d) yet result %r' % (fails, len(es), failable, r), wit)
    else:
        ctx.count('expected_incorrect')
        if got or r['ok'] is not False:
            kind = 'exact_boundary' if exact else ('one_too_many' if fails == (0 if len(es) == 1 else failable) + 1 else 'many')
            ctx.violation('C04:accepted_although_outside:%s:%s' % (kind, 'percent' if isinstance(tolerance, str) else 'absolute'),
                          '%d of %d samples miss (allowed %d) yet result %r' % (fails, len(es), failable, r), wit)
    if 0 < fails < len(es):
        ctx.count('partial_failure_patterns')
    # per-sample decisions + argument order
    drain_tap(ctx, list(zip(es, ss)), tolerance, wit)
    if 0 < fails < len(es) or any(0.4 < m < 1.6 for m in [margin]):
        ctx.nontrivial(wit)
    elif exact:
        ctx.nontrivial(wit)


def scripts(rng, n, negatives=0):
    xs = [round(rng.uniform(1.5, 4.5), 3) for _ in range(n)]
    for k in rng.sample(range(n), negatives):
        xs[k] = -xs[k]
    ys = [round(rng.uniform(0.5, 3.0), 3) for _ in range(n)]
    if rng.random() < 0.15:
        # samples need not be Python floats: Python ints and numpy scalar types are numbers too (x^-1, 1/x, x^0.5 on them)
        k = rng.randrange(n)
        sign = -1 if xs[k] < 0 else 1
        xs[k] = rng.choice([int, np.int64, np.float64, np.int32])(sign * rng.randint(2, 4))
    return xs, ys


def run_delta_eps(ctx):
    rng = ctx.rng
    for i in range(ctx.n(8000, 480000)):
        arrays = i % 3 == 2
        fam = rng.choice(ARRAY_FAMILIES if arrays else SCALAR_FAMILIES)
        cls_name = 'MatrixGrader' if arrays else rng.choice(['FormulaGrader', 'MatrixGrader', 'FormulaGrader'])
        n = rng.randint(1, 7)
        failable = rng.randint(0, 3)
        tolerance = rng.choice(TOLERANCES)
        credit = rng.choice([1, 0.5])
        xs, ys = scripts(rng, n)
        es = [fam[1](x, y) for x, y in zip(xs, ys)]
        ratio = rng.choice(RATIOS)
        kind = rng.choice(['delta', 'eps'])
        tol0 = tol_of(tolerance, es[0])
        if arrays:
            ctx.count('array_cases')
        if kind == 'delta':
            # miss chosen relative to the tolerance at the first sample; other samples then vary
            shape = np.asarray(es[0]).shape
            size = max(1, int(np.prod(shape)))
            base = tol0 if tol0 > 0 else 1e-6
            d = ratio * base / math.sqrt(size)
            dv = np.full(shape, d) if arrays else d
            ss = [e + dv for e in es]
            student = '(%s)+%s' % (fam[0], arr_lit(np.asarray(dv)) if arrays else repr(float(d)))
        else:
            p = (float(tolerance[:-1]) * 0.01) if isinstance(tolerance, str) else None
            eps = ratio * (p if p else (tol0 / max(1e-300, float(np.sqrt(np.sum(np.abs(np.asarray(es[0])) ** 2))))))
            if eps == 0 and ratio > 0:
                eps = ratio * 1e-7
            ss = [e * (1 + eps) for e in es]
            student = '(%s)*%r' % (fam[0], 1 + eps)
        run_case(ctx, cls_name, fam[0], student, xs, ys, es, ss, tolerance, failable, credit,
                 {'family': kind, 'ratio_to_tolerance': ratio})
        if i < 3:
            ctx.sample({'grader': cls_name, 'answer': fam[0], 'submission': student, 'x': xs, 'y': ys,
                        'tolerance': tolerance, 'failable_evals': failable})


def run_branches(ctx):
    """abs(x) vs x / sqrt(x^2) vs x with k negative scripted samples: exactly k samples fail."""
    rng = ctx.rng
    for i in range(ctx.n(4800, 240000)):
        n = rng.randint(1, 7)
        failable = rng.randint(0, 3)
        k = rng.choice([0, failable, failable + 1, min(n, failable + 2), n])
        k = max(0, min(n, k))
        xs, ys = scripts(rng, n, negatives=k)
        ans, student = rng.choice([('abs(x)', 'x'), ('sqrt(x^2)', 'x'), ('abs(x)+y', 'x+y'), ('x', 'abs(x)')])
        fe = {'abs(x)': lambda x, y: abs(x), 'sqrt(x^2)': lambda x, y: abs(x), 'abs(x)+y': lambda x, y: abs(x) + y,
              'x': lambda x, y: x, 'x+y': lambda x, y: x + y}
        es = [fe[ans](x, y) for x, y in zip(xs, ys)]
        ss = [fe[student](x, y) for x, y in zip(xs, ys)]
        tolerance = rng.choice([0, 1e-9, 0.01, '0.01%', '5%'])
        if i % 5 == 1:
            # sampled variables that shadow default constants (allowed with suppress_warnings): they vary from sample to sample
            ctx.count('constant_shadowing_cases')
            ren = lambda f: f.replace('x', 'e').replace('y', 'pi')
            run_case(ctx, rng.choice(['FormulaGrader', 'MatrixGrader']), ren(ans), ren(student), xs, ys, es, ss, tolerance, failable,
                     rng.choice([1, 0.5]), {'family': 'branch', 'negative_samples': k, 'variables': 'named e and pi'},
                     extra_cfg={'variables': ['e', 'pi'], 'suppress_warnings': True,
                                'sample_from': {'e': lib.Scripted(values=list(xs)), 'pi': lib.Scripted(values=list(ys))}})
            continue
        if i % 5 == 0 and 'y' not in ans:
            # the only sampled quantity is an instance of a numbered variable (no plain variables at all)
            ctx.count('numbered_only_cases')
            run_case(ctx, rng.choice(['FormulaGrader', 'MatrixGrader']), ans.replace('x', 'a_{1}'), student.replace('x', 'a_{1}'), xs, ys, es, ss,
                     tolerance, failable, rng.choice([1, 0.5]), {'family': 'branch', 'negative_samples': k, 'variables': 'numbered only'},
                     extra_cfg={'variables': [], 'numbered_vars': ['a'], 'sample_from': {'a': lib.Scripted(values=list(xs))}})
            continue
        run_case(ctx, rng.choice(['FormulaGrader', 'MatrixGrader']), ans, student, xs, ys, es, ss, tolerance, failable,
                 rng.choice([1, 0.5]), {'family': 'branch', 'negative_samples': k})


def run_rewrites(ctx):
    """Bit-exact rewrites must earn full credit even at tolerance 0; rounding-changing ones at 1e-9 rel."""
    rng = ctx.rng
    exact = [('x^2+1', 'x^2+1+0*i'), ('x^2+1', 're(x^2+1)+0*im(x)'), ('x*y+2', 'conj(x*y+2)'),
             ('x^2+1', '1+x^2'), ('x^2+1', ' ( x ^ 2 ) + 1 '), ('x*y+2', 'y*x+2'), ('x*y+2', '2+y*x'), ('3*x-y', '(3*x-y)*1'),
             ('3*x-y', '3*x-y+0'), ('x*y+2', '((x)*(y))+(2)'), ('x^2+1', 'x^2+1+0*y'), ('3*x-y', '-y+3*x'), ('x+i*y', 'i*y+x')]
    loose = [('x^2+1', '(x+i)*(x-i)'), ('3*x-y', '(3*x-y+i)-i'), ('x*y+2', 'x^-1*x^2*y+2'), ('x^2+1', '(x^0.5)^4+1'),
             ('x^2+1', '(x+1)^2-2*x'), ('3*x-y', 'x+x+x-y'), ('x*y+2', '(x+1)*y-y+2'), ('x^2+1', 'x*x+1'), ('3*x-y', '3*(x-y/3)')]
    fe = {'x^2+1': lambda x, y: x * x + 1, 'x*y+2': lambda x, y: x * y + 2, '3*x-y': lambda x, y: 3 * x - y,
          'x+i*y': lambda x, y: complex(x, y)}
    for i in range(ctx.n(2400, 120000)):
        n = rng.randint(1, 6)
        xs, ys = scripts(rng, n)
        if i % 2 == 0:
            ans, student = rng.choice(exact)
            tolerance = rng.choice([0, '0%', 1e-9, '0.01%'])
        else:
            ans, student = rng.choice(loose)
            tolerance = rng.choice([1e-7, '0.0001%', '0.01%', 0.01])
        es = [fe[ans](x, y) for x, y in zip(xs, ys)]
        ctx.count('rewrite_cases')
        if i % 6 == 5 and ans in ('x*y+2', 'x^2+1', '3*x-y'):
            # the author's answer reaches the same value through a chain of dependent variables declared in arbitrary order
            from mitxgraders import DependentSampler
            inner = {'x*y+2': 'x*y', 'x^2+1': 'x^2', '3*x-y': '3*x'}[ans]
            outer = {'x*y+2': 'v+2', 'x^2+1': 'v+1', '3*x-y': 'v-y'}[ans]
            order = rng.sample(['w', 'v', 'x', 'y'], 4)
            ctx.count('dependent_chain_cases')
            run_case(ctx, rng.choice(['FormulaGrader', 'MatrixGrader']), 'w', rng.choice([ans, student, 'w+0*v']), xs, ys, es, list(es), tolerance,
                     rng.randint(0, 2), rng.choice([1, 0.5]), {'family': 'rewrite', 'dependent_chain': {'v': inner, 'w': outer}, 'declaration_order': order},
                     exact=True, extra_cfg={'variables': order, 'sample_from': {'x': lib.Scripted(values=list(xs)), 'y': lib.Scripted(values=list(ys)),
                                                                                'v': DependentSampler(formula=inner), 'w': DependentSampler(formula=outer)}})
            continue
        run_case(ctx, rng.choice(['FormulaGrader', 'MatrixGrader']), ans, student, xs, ys, es, list(es), tolerance,
                 rng.randint(0, 2), rng.choice([1, 0.5]), {'family': 'rewrite'}, exact=True)


def run_identity_law(ctx):
    """
    The consequence stated in the property, under REAL samplers of every kind (the sampled values are not known to the
    harness): an algebraically identical rewriting of the answer always earns its full credit; a formula that misses
    by far more than the tolerance at every sample never earns any.
    """
    import mitxgraders as M
    rng = ctx.rng
    for i in range(ctx.n(1600, 30000)):
        ctx.seed_case('identity', i)
        kind = rng.choice(['formula', 'formula', 'matrix', 'numerical'])
        samples = rng.randint(1, 6)
        tol = rng.choice(['0.01%', 1e-6, '1%', '0.5%'])
        credit = rng.choice([1, 1, 0.5])
        xs = rng.choice([M.RealInterval([2, 3]), M.IntegerRange([2, 9]), M.DiscreteSet((2.5, 3.5, 4.25)), [2, 4], M.RealInterval([-3, -2])])
        zs = rng.choice([M.ComplexRectangle(re=[1, 2], im=[1, 2]), M.ComplexSector(modulus=[1, 2], argument=[0.2, 1.2])])
        cfg = dict(samples=samples, tolerance=tol, failable_evals=rng.randint(0, max(0, samples - 1)) if samples > 1 else 0)
        if kind == 'formula':
            cfg.update(variables=['x', 'z', 'n', 'd'], numbered_vars=['a'], user_functions={'rf': M.RandomFunction(center=5, amplitude=2)},
                       sample_from={'x': xs, 'z': zs, 'n': M.IntegerRange([2, 5]), 'a': M.RealInterval([1, 2]), 'd': M.DependentSampler(formula='2*x')})
            ans, same, far = rng.choice([
                ('x^2+z*n', 'z*n+x^2', 'x^2+z*n+100'), ('rf(x)+a_{1}', 'a_{1}+rf(x)', 'rf(x)+a_{1}+100'), ('d+x', '3*x', 'd+x+100'),
                ('abs(z)^2+x', 're(z)^2+im(z)^2+x', 'abs(z)^2+x+100'), ('a_{1}*a_{2}+n', 'n+a_{2}*a_{1}', 'a_{1}*a_{2}+n+100'),
                ('rf(x)*rf(x)', 'rf(x)^2', 'rf(x)^2+100'), ('conj(z)*z', 'abs(z)^2', 'conj(z)*z+100*i'), ('x^n', 'x^(n-1)*x', '(x^n)*(1+3*i)'),
                # a real answer missed by an IMAGINARY amount is missed all the same
                ('x^2+n', 'n+x*x', 'x^2+n+100*i'), ('x^2+n', 'n+x^2', '(x^2+n)*(1+3*i)'), ('d+x', 'x+d', 'd+x+50*i*x'),
                # author constants that redefine defaults (suppress_warnings) are the values the answer is computed with
                ('e*x+pi', '1.5*x+3', '2.718281828459045*x+3.141592653589793'), ('e^2*n', '2.25*n', '7.38905609893065*n')])
            if 'e*x' in ans or 'e^2' in ans:
                cfg.update(user_constants={'e': 1.5, 'pi': 3.0}, suppress_warnings=True)
            cls = M.FormulaGrader
        elif kind == 'matrix':
            cfg.update(variables=['x', 'v', 'w', 'A'], max_array_dim=2,
                       sample_from={'x': xs, 'v': M.RealVectors(shape=3), 'w': M.ComplexVectors(shape=3), 'A': rng.choice([M.RealMatrices(shape=[3, 3]), M.SquareMatrices(dimension=3, symmetry='symmetric')])})
            ans, same, far = rng.choice([
                ('A*v', 'A*v+0*v', 'A*v+[100,100,100]'), ('v*v+x', 'norm(v)^2+x', 'v*v+x+100'), ('trans(A)*v', 'v*A', 'trans(A)*v+[100,0,0]'),
                ('x*A*v', 'A*(x*v)', 'x*A*v+[0,100,0]'), ('w*ctrans(w)+x', 'x+norm(w)^2', 'w*ctrans(w)+x+100'), ('A^2*v', 'A*(A*v)', 'A^2*v+[100,100,100]')])
            cls = M.MatrixGrader
        else:
            cfg = dict(tolerance=tol)
            ans, same, far = rng.choice([('2^0.5*3', '3*sqrt(2)', '2^0.5*3+100'), ('e^2+pi', 'pi+exp(2)', 'e^2+pi+100'), ('1/3+1/6', '0.5', '100'),
                                         ('5', '2+3', '5+2*i'), ('5', '10/2', '5*(1+i)')])
            cls = M.NumericalGrader
        try:
            g = cls(answers={'expect': ans, 'grade_decimal': credit}, **cfg)
        except Exception as exc:  # noqa
            ctx.inconclusive_because('harness: identity-law configuration rejected: %r' % (exc,))
            return
        for which, sub in (('identical', same), ('far', far), ('identical', ans)):
            out = lib.call(ctx, g, None, sub)
            ctx.ev()
            ctx.count('grader_calls')
            ctx.count('identity_law_calls')
            wit = {'family': 'identity_law', 'grader': cls.__name__, 'answer': ans, 'submission': sub, 'kind': which, 'samples': samples, 'tolerance': tol,
                   'failable_evals': cfg.get('failable_evals', 0), 'credit': credit, 'samplers': {k_: repr(v_)[:60] for k_, v_ in cfg.get('sample_from', {}).items()},
                   'outcome': out.brief()}
            ctx.nontrivial(['identity', cls.__name__, ans, sub, samples, tol])
            if not out.returned:
                ctx.violation('C04:raises:' + cls.__name__, 'grading raised %r' % (out.exc,), wit)
            elif which == 'identical' and (abs(out.value['grade_decimal'] - credit) > 1e-12):
                ctx.violation('C04:rejected_although_within:identical_rewriting:' + cls.__name__, 'an identical rewriting earned %r, the answer is worth %r' % (out.value, credit), wit)
            elif which == 'far' and out.value['grade_decimal'] != 0:
                ctx.violation('C04:accepted_although_outside:far_everywhere:' + cls.__name__, 'a formula off by 100 at every sample earned %r' % (out.value,), wit)


def run_boundaries(ctx):
    """Exact integer / dyadic boundary cases: <= versus <, and 'relative to which operand'."""
    cases = [
        # (answer, student, tolerance, correct?)
        ('5', '7', 2, True), ('5', '7', 1.9999999, False), ('5', '3', 2, True), ('5', '7.0000001', 2, False),
        ('5', '7', '40%', True), ('5', '3', '40%', True), ('8', '10', '25%', True), ('10', '8', '25%', True),
        ('8', '6', '25%', True), ('4', '5', '25%', True), ('5', '4', '20%', True), ('4', '5', '20%', False),
        ('10', '11.05', '10%', False), ('10', '9.05', '10%', True), ('10', '8.95', '10%', False),
        ('0', '0', 0, True), ('0', '0', '0%', True), ('0', '0.5', '50%', False), ('2', '2', 0, True), ('2', '2.5', 0.5, True),
        ('1+i', '1+3*i', 2, True), ('3+4*i', '6+8*i', '100%', True), ('3+4*i', '6+8*i', '99%', False),
    ]
    for ans, student, tolerance, want in cases:
        for cls_name in ('NumericalGrader', 'FormulaGrader', 'MatrixGrader'):
            e = complex(ans.replace('*i', 'j').replace('i', '1j')) if 'i' in ans else float(ans)
            s = complex(student.replace('*i', 'j').replace('i', '1j')) if 'i' in student else float(student)
            ok, margin = oracle_within(e, s, tolerance)
            if ok != want:
                ctx.inconclusive_because('harness: boundary table entry %r disagrees with the oracle' % ((ans, student, tolerance),))
                return
            ctx.count('boundary_exact_cases')
            if ans == '10' and student in ('11.05', '9.05', '8.95') or (ans, student) in (('10', '8'), ('4', '5'), ('5', '4')):
                ctx.count('relative_operand_discriminating')
            run_case(ctx, cls_name, ans, student, [2.0], [2.0], [e], [s], tolerance, 0, 1,
                     {'family': 'exact_boundary'}, exact=True)
    # scripted integer samples: every sample sits exactly on the boundary
    for tol, shift, want in ((2, 2, True), (2, 2.5, False), ('50%', None, True)):
        xs = [2.0, 4.0, 8.0]
        if shift is None:
            student = 'x*1.5'
            ss = [x * 1.5 for x in xs]
        else:
            student = 'x+%r' % shift
            ss = [x + shift for x in xs]
        ctx.count('boundary_exact_cases')
        run_case(ctx, 'FormulaGrader', 'x', student, xs, [1.0, 1.0, 1.0], xs, ss, tol, 0, 1,
                 {'family': 'exact_boundary_scripted'}, exact=True)
    # Frobenius vs max-abs: e = [3,4,0], miss d in every entry; d < tol < d*sqrt(3)
    for d, tol, want in ((1.0, 1.5, False), (1.0, 1.74, True), (1.0, 1.0, False), (0.5, 0.9, True), (0.5, 0.86, False)):
        e = np.array([3.0, 4.0, 0.0])
        s = e + d
        ctx.count('norm_discriminating')
        run_case(ctx, 'MatrixGrader', '[3,4,0]', '[3,4,0]+[%r,%r,%r]' % (d, d, d), [1.0], [1.0], [e], [s], tol, 0, 1,
                 {'family': 'frobenius_vs_maxabs'})
    for d, tol in ((1.0, '30%'), (1.0, '35%'), (0.5, '18%')):
        e = np.array([[3.0, 0.0], [0.0, 4.0]])
        s = e + d
        ctx.count('norm_discriminating')
        run_case(ctx, 'MatrixGrader', '[[3,0],[0,4]]', '[[3,0],[0,4]]+[[%r,%r],[%r,%r]]' % (d, d, d, d), [1.0], [1.0], [e], [s], tol, 0, 1,
                 {'family': 'frobenius_percent'})


def run_inf(ctx):
    from mitxgraders import FormulaGrader, NumericalGrader
    inf = float('inf')
    table = [('infty', 'infty', True), ('infty', '-infty', False), ('-infty', '-infty', True), ('infty', '5', False),
             ('5', 'infty', False), ('-infty', 'infty', False), ('infty', '1e300', False), ('2*infty', 'infty', True),
             ('-infty', '5', False), ('-infty', '-5', False), ('-infty', '-1e300', False), ('5', '-infty', False), ('-5', '-infty', False),
             ('infty', '-5', False), ('-infty', '0', False), ('0', 'infty', False), ('0', '-infty', False), ('-2*infty', '-infty', True),
             # submissions without a value (indeterminate forms, blank boxes) agree with nothing, under relative and absolute tolerances alike
             ('5', 'infty-infty', False), ('5', '0*infty', False), ('0', 'infty-infty', False), ('infty', 'infty-infty', False), ('5', 'infty/infty', False),
             ('5', '', False), ('0', '  ', False), ('0', '0*infty', False), ('-infty', 'infty-infty', False)]
    for ans, student, want in table:
        for cls in (FormulaGrader, NumericalGrader):
            for tol in (0, 5, '100%', '1000%'):
                g = cls(answers=ans, allow_inf=True, tolerance=tol)
                TAP['events'] = []
                out = lib.call(ctx, g, None, student)
                ctx.ev()
                ctx.count('inf_cases')
                ctx.count('grader_calls')
                wit = {'grader': cls.__name__, 'answer': ans, 'submission': student, 'tolerance': tol, 'outcome': out.brief()}
                if not out.returned:
                    ctx.violation('C04:inf:raises', repr(out.brief()), wit)
                elif (out.value['ok'] is True) != want:
                    ctx.violation('C04:inf:' + ('same_infinity_rejected' if want else 'mismatch_accepted'),
                                  'expected ok=%s, got %r' % (want, out.value), wit)
                TAP['events'] = []
                ctx.nontrivial(wit)


def run_sibling_values(ctx):
    """An author's answer written in terms of sibling_j is compared with the value of the j-th INPUT BOX of the ordered list
    (docs/grading_math/formula_grader.md), whatever kinds of boxes precede it."""
    from mitxgraders import ListGrader, FormulaGrader, NumericalGrader, StringGrader, DependentSampler
    F = lambda **k: FormulaGrader(variables=['x'], **k)
    table = [
        (['cat', 'x+1', 'sibling_2*2'], lambda: [StringGrader(), F(), F()], ['cat', 'x+1', '2*(x+1)'], [1, 1, 1]),
        (['cat', 'x+1', 'sibling_2*2'], lambda: [StringGrader(), F(), F()], ['cat', 'x+1', '0'], [1, 1, 0]),
        (['cat', 'x+1', 'sibling_2*2'], lambda: [StringGrader(), F(), F()], ['cat', 'x+1', 'x+1'], [1, 1, 0]),
        (['cat', 'x+1', 'sibling_2*2'], lambda: [StringGrader(), F(), F()], ['cat', 'x', '2*x'], [1, 0, 1]),
        (['cat', 'dog', '3', 'sibling_3+1'], lambda: [StringGrader(), StringGrader(), NumericalGrader(), NumericalGrader()], ['cat', 'dog', '3', '4'], [1, 1, 1, 1]),
        (['cat', 'dog', '3', 'sibling_3+1'], lambda: [StringGrader(), StringGrader(), NumericalGrader(), NumericalGrader()], ['cat', 'dog', '5', '6'], [1, 1, 0, 1]),
        (['cat', 'dog', '3', 'sibling_3+1'], lambda: [StringGrader(), StringGrader(), NumericalGrader(), NumericalGrader()], ['cat', 'dog', '3', '1'], [1, 1, 1, 0]),
        (['x', 'cat', 'c'], lambda: [F(), StringGrader(), FormulaGrader(variables=['x', 'c'], sample_from={'c': DependentSampler(formula='sibling_1^2')}, instructor_vars=['c'])],
         ['x+2', 'cat', '(x+2)^2'], [0, 1, 1]),
    ]
    for rep in range(ctx.pick(2, 8)):
        for answers, mk, inputs, want in table:
            g = ListGrader(answers=answers, subgraders=mk(), ordered=True)
            out = lib.call(ctx, g, None, list(inputs))
            ctx.ev()
            ctx.count('grader_calls')
            ctx.count('sibling_value_cases')
            wit = {'answers': answers, 'inputs': inputs, 'expected_grades': want, 'outcome': out.brief()}
            ctx.nontrivial(['sibling_values', answers, inputs])
            if not out.returned:
                ctx.violation('C04:sibling_values:raises', repr(out.exc)[:200], wit)
            elif [e['grade_decimal'] for e in out.value['input_list']] != want:
                ctx.violation('C04:sibling_values:verdict', 'grades %r, expected %r' % ([e['grade_decimal'] for e in out.value['input_list']], want), wit)


def run_default_comparer_scope(ctx):
    """FormulaGrader.set_default_comparer (docs/grading_math/comparer_functions.md) changes how FormulaGraders compare; Numerical and
    Matrix graders keep comparing for equality within tolerance, also while it is in force, and FormulaGrader does again after the
    reset.  (The class-level setting is process-wide: set and reset inside one try/finally.)"""
    from mitxgraders import FormulaGrader, NumericalGrader, MatrixGrader
    from mitxgraders.comparers import LinearComparer
    rng = ctx.rng
    for rep in range(ctx.pick(4, 25)):
        scale = rng.choice(['2*', '0.5*', '-', '3*'])
        cases = []
        FormulaGrader.set_default_comparer(LinearComparer())
        try:
            mg = MatrixGrader(answers=rng.choice(['[x,2*x]', {'expect': '[x,2*x]', 'grade_decimal': 0.8}]), variables=['x'])
            mi = MatrixGrader(variables=['x'])                    # (answer inferred from expect)
            ng = NumericalGrader(answers='4')
            fg = FormulaGrader(answers='x^2', variables=['x'])
            cases += [('MatrixGrader', mg, None, scale + '[x,2*x]', 0), ('MatrixGrader', mg, None, '[x,2*x]+[1,1]', 0), ('MatrixGrader', mg, None, '[x,2*x]', None),
                      ('MatrixGrader(expect)', mi, '[x,2*x]', scale + '[x,2*x]', 0), ('MatrixGrader(expect)', mi, '[x,2*x]', '[x,2*x]', 1),
                      ('NumericalGrader', ng, None, scale + '4', 0), ('NumericalGrader', ng, None, '4+1', 0), ('NumericalGrader', ng, None, '4', 1)]
            outs = [(c, lib.call(ctx, c[1], c[2], c[3])) for c in cases]
            reach = lib.call(ctx, fg, None, '2*x^2')
        finally:
            FormulaGrader.reset_default_comparer()
        after = lib.call(ctx, FormulaGrader(answers='x^2', variables=['x']), None, '2*x^2')
        ctx.count('default_comparer_scope_cases')
        if not reach.returned or reach.value['grade_decimal'] != 0.5:
            ctx.inconclusive_because('harness: set_default_comparer(LinearComparer()) had no effect on FormulaGrader: %s' % (reach.brief(),))
            return
        for (name, g, expect, sub, want), out in outs + [(('FormulaGrader after reset', None, None, '2*x^2', 0), after)]:
            ctx.ev()
            ctx.count('grader_calls')
            wit = {'grader': name, 'while': 'FormulaGrader.set_default_comparer(LinearComparer()) in force' if g is not None else 'after reset_default_comparer',
                   'submission': sub, 'outcome': out.brief()}
            ctx.nontrivial(['default_comparer_scope', name, sub])
            if not out.returned:
                ctx.violation('C04:default_comparer_scope:raises', repr(out.exc), wit)
            elif want is None:
                if out.value['grade_decimal'] <= 0:
                    ctx.violation('C04:default_comparer_scope:identical_refused', repr(out.value), wit)
            elif (out.value['grade_decimal'] > 0) != (want > 0):
                ctx.violation('C04:default_comparer_scope:' + ('not_equality' if want == 0 else 'identical_refused'),
                              '%r earned %r; this grader compares for equality within tolerance' % (sub, out.value['grade_decimal']), wit)


def run(ctx):
    install_tap(ctx)
    run_delta_eps(ctx)
    run_branches(ctx)
    run_rewrites(ctx)
    run_identity_law(ctx)
    if ctx.shard % 4 == 0:
        run_default_comparer_scope(ctx)
        run_sibling_values(ctx)
        run_boundaries(ctx)
        run_inf(ctx)
