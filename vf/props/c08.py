"""
C08 -- among alternative answers the student always receives the best-scoring one.

Oracle: real-code differential.  For alternatives A1..Ak the harness builds k single-alternative
graders from the same specification and the full grader in every listing order (k <= 4
exhaustively, sampled beyond); the full grader must return max_i grade_i, a message of maximal
length among the best-scoring alternatives, wrong_msg exactly when the best grade is zero and no
specific message applies, and the same outcome in every order.  Also entrywise inside lists.
"""
import itertools

from vf import lib

RULE = ('tuples of 1-6 alternatives (single expect values or expect tuples, credit in {0,.3,.5,.7,1}, messages of '
        'different lengths incl. empty) in every listing order (k<=4; 24 sampled orders beyond), inputs matching '
        'none / one / several alternatives, with and without wrong_msg (short and long), for String, Numerical, '
        'Formula, Matrix and SingleList graders and the same graders as subgraders in ordered and unordered '
        'lists. Non-trivial = input matched by at least two alternatives, or a zero-credit alternative with a '
        'message, or wrong_msg applicable; distinct by (grader spec, input).')
ASSUMPTIONS = ['R5: ties in (grade, message length) may resolve to any such alternative',
               'single-alternative graders (real code) define what the input earns against one alternative']

CREDITS = [0, 0.3, 0.5, 0.7, 1, 1]
# credits that differ by less than any display precision, and credits too small to display: still compared exactly
FINE_CREDITS = [1 / 3., 0.33, 0.334, 0.45, 0.454, 0.004, 0.001, 1e-6, 0.995, 0.999, 0.7, 0.704, 0.696, 0, 1]
MSGS = ['', '', 'm', 'longer message', 'the longest message of them all', 'mm', 'with {braces} {0} and 100%', u'unic\u00f6de \u2717 "q"']


def gates(tier):
    return {'full_grader_calls': 8000, 'orders_checked': 6000, 'multi_match_inputs': 600, 'zero_credit_message_cases': 100,
            'wrong_msg_applicable': 300, 'wrong_msg_not_applicable': 600, 'list_entry_checks': 300,
            'class:StringGrader': 200, 'class:NumericalGrader': 150, 'class:FormulaGrader': 150,
            'class:MatrixGrader': 100, 'class:SingleListGrader': 100, 'author_comparer_calls': 1500,
            'credit_scaling_checks': 1500, 'known_wrong_checks': 1000, 'message_origin_checks': 3000, 'interval_calls': 4000}


def specs(rng):
    """(class name, base config, pool of expect values, inputs)."""
    kind = rng.choice(['String', 'String', 'Numerical', 'Formula', 'Matrix', 'SingleList'])
    if kind == 'String':
        cs = rng.random() < 0.5
        base = {'case_sensitive': cs}
        extra = []
        if rng.random() < 0.15:
            # every submission is acceptable: what it earns is the credit the author attached (best alternative)
            base['accept_any'] = True
        elif rng.random() < 0.3:
            # ill-formed submissions are silently graded wrong (no explanation): wrong_msg applies to them as to any wrong answer
            base.update(validation_pattern='[a-zA-Z ]*', explain_validation=None)
            extra = ['c4t', 'dog!', '42']
        return ('StringGrader', base, ['cat', 'dog', 'Cat', ' cat ', 'fish', 'c a t', 'DOG', 'cat  '],
                ['cat', 'CAT', 'dog', ' cat', 'bird', 'Dog', 'c a t', ''] + extra)
    if kind == 'Numerical':
        return ('NumericalGrader', {'tolerance': rng.choice(['5%', '1%', 0.2])}, ['5', '5.1', '10/2', '4.9', '6', '2+3', '5.3', '0'],
                ['5', '5.05', '4.95', '5.2', '6', '7', '0', '2*2.5'])
    if kind == 'Formula':
        ns = rng.choice([1, 3, 3])
        return ('FormulaGrader', {'variables': ['x'], 'samples': ns, 'failable_evals': rng.choice([0, 0, 1, 2]) if ns > 2 else rng.choice([0, 1])}, ['x^2', 'x*x', '2*x', 'x+x', 'x^2+1', 'x', 'x^2+0*x', '3*x'],
                ['x^2', 'x*x', '2*x', 'x+x', 'x^3', 'x^2+1', 'x'])
    if kind == 'Matrix':
        base = {}
        pool = ['[1,2]', '[1,2]+[0,0]', '[2,4]/2', '[1,3]', '[0,0]', '2*[0.5,1]']
        inputs = ['[1,2]', '[2,4]/2', '[1,3]', '[0,0]', '[5,5]', '[1,2]*1']
        r = rng.random()
        if r < 0.3:
            base['entry_partial_credit'] = rng.choice([0.5, 'proportional'])     # a comparer that itself awards partial credit
            base['failable_evals'] = rng.choice([0, 1, 2])                       # (irrelevant for a comparer that sees all samples at once)
        elif r < 0.6:
            # shape mismatches are tolerated (graded wrong) instead of raised: alternatives of different shapes can coexist
            base.update(rng.choice([{'answer_shape_mismatch': {'is_raised': False}}, {'suppress_matrix_messages': True},
                                    {'answer_shape_mismatch': {'is_raised': False, 'msg_detail': None}}]))
            base['max_array_dim'] = 2
            pool = pool + ['[1,2,3]', '[[1,2],[3,4]]', '7']
            inputs = inputs + ['[1,2,3]', '[[1,2],[3,4]]', '7', '[1,2,4]']
        return ('MatrixGrader', base, pool, inputs)
    return ('SingleListGrader', {'ordered': rng.random() < 0.5, 'partial_credit': rng.random() < 0.6, 'length_error': rng.random() < 0.3},
            [['a', 'b'], ['b', 'a'], ['a', 'c'], ['c', 'd'], ['a', 'a']], ['a,b', 'b,a', 'a,c', 'c,d', 'a', 'x,y', 'a,b,c'])


def build(cls_name, base, answers, wrong_msg=''):
    import mitxgraders
    cfg = dict(base)
    if cls_name == 'FormulaGrader':
        cfg['sample_from'] = {'x': lib.Scripted(values=[1.7, 2.9, 4.3])}
    if cls_name == 'SingleListGrader':
        cfg['subgrader'] = mitxgraders.StringGrader()
    return getattr(mitxgraders, cls_name)(answers=tuple(answers), wrong_msg=wrong_msg, **cfg)


def split_singles(alts):
    """Expect tuples count as several alternatives with the same credit and message."""
    out = []
    for a in alts:
        if isinstance(a['expect'], tuple):
            for e in a['expect']:
                out.append(dict(a, expect=e))
        else:
            out.append(a)
    return out


def make_alts(rng, pool):
    k = rng.choice([1, 2, 2, 3, 3, 4, 4, 5, 6])
    alts = []
    credits = FINE_CREDITS if rng.random() < 0.2 else CREDITS
    for _ in range(k):
        if rng.random() < 0.2 and not isinstance(pool[0], list):
            e = tuple(rng.sample(pool, 2))
        else:
            e = rng.choice(pool)
        alts.append({'expect': e, 'grade_decimal': rng.choice(credits), 'msg': rng.choice(MSGS)})
        if rng.random() < 0.12:
            # an author's explicit ok label (possibly at odds with the credit): credit and messages are decided by the credit alone
            alts[-1]['ok'] = rng.choice([True, False, 'partial'])
    return alts


def run_item(ctx):
    rng = ctx.rng
    for i in range(ctx.n(1600, 25000)):
        cls_name, base, pool, inputs = specs(rng)
        alts = make_alts(rng, pool)
        wrong_msg = rng.choice(['', '', 'WRONG', 'WRONG: a deliberately very long generic message for wrong answers', 'WRONG {x} 50%'])
        try:
            singles = [build(cls_name, base, [a]) for a in split_singles(alts)]
        except Exception as exc:  # noqa
            ctx.count('spec_rejected')
            continue
        k = len(alts)
        orders = list(itertools.permutations(range(k)))
        if len(orders) > 24:
            orders = [tuple(range(k)), tuple(reversed(range(k)))] + rng.sample(orders, 22)
        fulls = [(o, build(cls_name, base, [alts[j] for j in o], wrong_msg)) for o in orders]
        ctx.count('class:' + cls_name)
        # self-match law: submitting an alternative's own expect value earns at least that alternative's credit
        for a in split_singles(alts):
            own = ','.join(a['expect']) if isinstance(a['expect'], list) else a['expect']
            out = lib.call(ctx, fulls[0][1], None, own)
            ctx.ev()
            ctx.count('self_match_checks')
            if out.returned and out.value['grade_decimal'] < a['grade_decimal'] - 1e-12:
                ctx.violation('C08:%s:own_expect_earns_less_than_its_credit' % cls_name,
                              'input %r equals an alternative worth %r but earned %r' % (own, a['grade_decimal'], out.value['grade_decimal']),
                              {'grader': cls_name, 'config': base, 'alternatives': alts, 'input': own})
        # absolute anchor: an input that matches none of the alternatives in the pool earns nothing
        nowhere = {'StringGrader': 'bird', 'NumericalGrader': '7', 'FormulaGrader': 'x^3', 'MatrixGrader': '[5,5]', 'SingleListGrader': 'x,y'}[cls_name]
        out = lib.call(ctx, fulls[0][1], None, nowhere)
        ctx.ev()
        ctx.count('known_wrong_checks')
        if out.returned and out.value['grade_decimal'] != 0 and not base.get('accept_any'):
            ctx.violation('C08:%s:input_matching_nothing_earns_credit' % cls_name, 'input %r earned %r' % (nowhere, out.value),
                          {'grader': cls_name, 'config': base, 'alternatives': alts, 'input': nowhere})
        for inp in rng.sample(inputs, min(len(inputs), ctx.pick(3, 6))):
            souts = [lib.call(ctx, g, None, inp) for g in singles]
            ctx.ev(len(souts))
            if any(not o.returned for o in souts):
                ctx.count('inputs_with_raising_alternative')
                continue
            # credit-scaling law (absolute, so that a fault shared by the single-alternative graders is still seen):
            # against ONE alternative the input earns credit x (what it earns when that alternative is worth 1), and the
            # message does not depend on the credit -- in particular a zero-credit alternative speaks only when matched
            for a, o in zip(split_singles(alts), souts):
                if a['grade_decimal'] == 1:
                    continue
                try:
                    o1 = lib.call(ctx, build(cls_name, base, [dict(a, grade_decimal=1)]), None, inp)
                except Exception:  # noqa
                    continue
                ctx.ev()
                ctx.count('credit_scaling_checks')
                if not o1.returned:
                    continue
                if abs(o.value['grade_decimal'] - a['grade_decimal'] * o1.value['grade_decimal']) > 1e-12 or o.value['msg'] != o1.value['msg']:
                    ctx.violation('C08:%s:single_alternative_depends_on_credit%s' % (cls_name, ':zero_credit' if a['grade_decimal'] == 0 else ''),
                                  'worth %r: %r; worth 1: %r' % (a['grade_decimal'], o.value, o1.value),
                                  {'grader': cls_name, 'config': base, 'alternative': a, 'input': inp})
            if cls_name in ('StringGrader', 'NumericalGrader', 'FormulaGrader', 'SingleListGrader'):
                # absolute: a message is one the author wrote for one of these alternatives (or empty)
                legal = set(a['msg'] for a in alts) | {''}
                for o in souts:
                    ctx.count('message_origin_checks')
                    if o.value['msg'] not in legal:
                        ctx.violation('C08:%s:message_of_foreign_origin' % cls_name, 'message %r is none of %r' % (o.value['msg'], sorted(legal)),
                                      {'grader': cls_name, 'config': base, 'alternatives': alts, 'input': inp})
            best = max(o.value['grade_decimal'] for o in souts)
            winners = [dict(o.value, msg=o.value['msg'].replace('<br/>\n', '\n')) for o in souts if o.value['grade_decimal'] == best]
            maxlen = max(len(w['msg']) for w in winners)
            ok_msgs = set(w['msg'] for w in winners if len(w['msg']) == maxlen)
            matched = sum(1 for o in souts if o.value['grade_decimal'] > 0)
            if matched >= 2:
                ctx.count('multi_match_inputs')
            zero_msg = best == 0 and maxlen > 0
            if zero_msg:
                ctx.count('zero_credit_message_cases')
            applicable = best == 0 and maxlen == 0
            want_msgs = set([wrong_msg]) if applicable else ok_msgs
            ctx.count('wrong_msg_applicable' if applicable and wrong_msg else 'wrong_msg_not_applicable')
            wit = {'grader': cls_name, 'config': base, 'alternatives': alts, 'wrong_msg': wrong_msg, 'input': inp,
                   'single_alternative_results': [o.value for o in souts]}
            if matched >= 2 or zero_msg or (applicable and wrong_msg):
                ctx.nontrivial(wit)
            seen = set()
            for o, g in fulls:
                out = lib.call(ctx, g, None, inp)
                ctx.ev()
                ctx.count('full_grader_calls')
                ctx.count('orders_checked')
                w = dict(wit, listing_order=list(o), outcome=out.brief())
                if not out.returned:
                    ctx.violation('C08:%s:raises' % cls_name, repr(out.exc), w)
                    break
                r = out.value
                if abs(r['grade_decimal'] - best) > 1e-12:
                    ctx.violation('C08:grade_not_maximal:' + ('first_listed_differs' if o != tuple(range(k)) else 'natural_order'),
                                  'grade %r, the best single alternative earns %r' % (r['grade_decimal'], best), w)
                    break
                msg = r['msg'].replace('<br/>\n', '\n')
                if msg not in want_msgs:
                    if applicable:
                        key = 'wrong_msg_missing'
                    elif wrong_msg and msg == wrong_msg:
                        key = 'wrong_msg_shown_despite_' + ('credit' if best > 0 else 'specific_message')
                    else:
                        key = 'message_not_longest_of_best'
                    ctx.violation('C08:' + key, 'message %r, acceptable %r' % (msg, sorted(want_msgs)), w)
                    break
                seen.add((r['grade_decimal'], len(msg)))
            if len(seen) > 1:
                ctx.violation('C08:order_dependent', 'outcomes over listing orders: %r' % sorted(seen), wit)
        if i < 2:
            ctx.sample({'grader': cls_name, 'alternatives': alts, 'wrong_msg': wrong_msg, 'orders': len(orders)})


def run_lists(ctx):
    """Entrywise law: inside a list each entry is what the item grader gives for (answers_i, input_i)."""
    from mitxgraders import ListGrader, StringGrader
    rng = ctx.rng
    for i in range(ctx.n(480, 6000)):
        pool = ['cat', 'dog', 'fish', 'Cat', 'bird']
        n = rng.randint(2, 3)
        answer_alts = [make_alts(rng, pool) for _ in range(n)]
        wrong_msg = rng.choice(['', 'WRONG'])
        own = rng.choice(['none', 'none', 'configured', 'used_before'])
        if own == 'configured':
            sub = StringGrader(answers=({'expect': 'zzz', 'msg': 'own answer'}, 'bird'), wrong_msg=wrong_msg)    # the list's answers take precedence
        else:
            sub = StringGrader(wrong_msg=wrong_msg)
            if own == 'used_before':
                lib.call(ctx, sub, 'zzz', 'zzz')        # stand-alone use with an edX expect value, before the list uses it
        ctx.count('list_subgrader_own_answers:' + own)
        ordered = rng.random() < 0.6
        g = ListGrader(answers=[tuple(a) for a in answer_alts], subgraders=sub, ordered=ordered)
        inputs = [rng.choice(pool + ['zzz']) for _ in range(n)]
        out = lib.call(ctx, g, None, inputs)
        ctx.ev()
        wit = {'answers': answer_alts, 'inputs': inputs, 'ordered': ordered, 'wrong_msg': wrong_msg, 'subgrader_own_answers': own, 'outcome': out.brief()}
        if not out.returned:
            ctx.violation('C08:list:raises', repr(out.exc), wit)
            continue
        entries = out.value['input_list']
        # standalone item graders per answer
        items = [StringGrader(answers=tuple(a), wrong_msg=wrong_msg) for a in answer_alts]
        if ordered:
            for j in range(n):
                ref = lib.call(ctx, items[j], None, inputs[j])
                ctx.count('list_entry_checks')
                if not ref.returned or entries[j]['grade_decimal'] != ref.value['grade_decimal'] or \
                        len(entries[j]['msg']) != len(ref.value['msg']):
                    ctx.violation('C08:list:entry_differs_from_item_grader',
                                  'entry %d is %r, the item grader alone gives %r' % (j, entries[j], ref.brief()), wit)
                    break
        else:
            # unordered: each entry must equal the item-grader result for SOME answer (one-to-one), total maximal
            G = [[lib.call(ctx, items[a], None, inputs[j]).value for j in range(n)] for a in range(n)]
            best = max(sum(G[p[j]][j]['grade_decimal'] for j in range(n)) for p in itertools.permutations(range(n)))
            total = sum(e['grade_decimal'] for e in entries)
            ctx.count('list_entry_checks', n)
            if abs(total - best) > 1e-9:
                ctx.violation('C08:list:unordered_total', 'total %r, best %r' % (total, best), wit)
            elif not any(all(entries[j]['grade_decimal'] == G[p[j]][j]['grade_decimal'] and
                             len(entries[j]['msg']) == len(G[p[j]][j]['msg']) for j in range(n))
                         for p in itertools.permutations(range(n))):
                ctx.violation('C08:list:entries_not_item_results', 'entries %r match no assignment of item-grader results' % (entries,), wit)
        ctx.nontrivial(wit)


def run_author_comparer(ctx):
    """Alternatives whose comparer is an author function that returns a (reused) dictionary for partial credit."""
    import mitxgraders as M
    rng = ctx.rng
    for i in range(ctx.n(320, 4000)):
        half = {'grade_decimal': 0.5, 'msg': 'half right'}

        as_string = rng.random() < 0.3
        half_word = rng.choice(['partial', 'Partial', 'PARTIAL'])

        def comp(params, student, utils, half=half, as_string=as_string, half_word=half_word):
            if utils.within_tolerance(params[0], student):
                return True
            if utils.within_tolerance(2 * params[0], student):
                return half_word if as_string else half          # the word 'partial' (half credit) or the same dictionary object every time
            return False
        cls = rng.choice([M.FormulaGrader, M.NumericalGrader, M.MatrixGrader])
        numeric = cls is M.NumericalGrader
        base = '3' if numeric else 'x^2+1'
        c1, c2 = rng.choice([0.6, 0.8, 1]), rng.choice([0.4, 0.9, 0])     # (a zero-credit alternative stays worth nothing whatever the comparer says)
        alts = [{'expect': {'comparer': comp, 'comparer_params': [base]}, 'grade_decimal': c1, 'msg': 'A'},
                {'expect': {'comparer': comp, 'comparer_params': ['5*(%s)' % base]}, 'grade_decimal': c2, 'msg': 'B'}]
        if rng.random() < 0.5:
            alts.reverse()
        kw = {} if numeric else {'variables': ['x'], 'samples': rng.choice([1, 3, 5])}
        g = cls(answers=tuple(alts), **kw)
        table = {base: c1, '2*(%s)' % base: 0.5 * c1, '5*(%s)' % base: c2, '10*(%s)' % base: 0.5 * c2, '7*(%s)' % base: 0}
        for rep in range(3):
            for inp, want in rng.sample(sorted(table.items()), 3):
                out = lib.call(ctx, g, None, inp)
                ctx.ev()
                ctx.count('full_grader_calls')
                ctx.count('author_comparer_calls')
                wit = {'grader': cls.__name__, 'comparer_returns': half_word if as_string else 'a reused dictionary',
                       'alternatives': [(a['expect']['comparer_params'], a['grade_decimal']) for a in alts],
                       'input': inp, 'call_number': rep, 'outcome': out.brief()}
                ctx.nontrivial(['author_comparer', cls.__name__, inp, c1, c2, rep])
                if not out.returned:
                    ctx.violation('C08:author_comparer:raises', repr(out.exc), wit)
                elif abs(out.value['grade_decimal'] - want) > 1e-12:
                    ctx.violation('C08:author_comparer:grade', 'grade %r, the best alternative earns %r (comparer credit x answer credit)'
                                  % (out.value['grade_decimal'], want), wit)
        if half != {'grade_decimal': 0.5, 'msg': 'half right'}:
            ctx.violation('C08:author_comparer:return_value_modified', 'the dictionary returned by the author comparer was altered: %r' % (half,),
                          {'grader': cls.__name__})


def run_interval(ctx):
    """
    IntervalGrader: alternatives at three levels (whole intervals, each number, each bracket).  Model written from
    docs/grading_math/interval_grader.md: half = number credit x best matching bracket credit (0 when the bracket
    matches nothing); interval = mean of the halves (all-or-nothing without partial_credit) x the interval's credit;
    the student receives the best interval alternative; listing order of alternatives is irrelevant.
    """
    from mitxgraders import IntervalGrader
    rng = ctx.rng
    NUMS = {'1': 1.0, '2': 2.0, '0': 0.0, '3': 3.0, '1.0': 1.0, '4/2': 2.0, '2.5': 2.5}

    def number_alts(correct):
        alts = [{'expect': correct, 'grade_decimal': 1, 'msg': ''}]
        for _ in range(rng.randint(0, 2)):
            alts.append({'expect': rng.choice(['0', '3', '2.5']), 'grade_decimal': rng.choice([0, 0.5, 0.8]), 'msg': rng.choice(['', 'numhint'])})
        return alts

    def bracket_alts(chars):
        first = rng.choice(chars)
        alts = [{'expect': first, 'grade_decimal': rng.choice([1, 1, 0.9]), 'msg': ''}]
        others = [c for c in chars if c != first]
        if others and rng.random() < 0.7:
            alts.append({'expect': others[0], 'grade_decimal': rng.choice([0, 0.5, 0.5, 1]), 'msg': rng.choice(['', 'bracket hint', 'b'])})
        if rng.random() < 0.3:
            # the same character listed twice with different credit: the better one counts
            alts.append({'expect': first, 'grade_decimal': rng.choice([0.2, 1]), 'msg': rng.choice(['', 'dup'])})
        return alts

    def credit_of(alts, pred):
        c = [a['grade_decimal'] for a in alts if pred(a['expect'])]
        return max(c) if c else None

    for i in range(ctx.n(1600, 20000)):
        partial_credit = rng.random() < 0.7
        intervals = []
        for _ in range(rng.choice([1, 1, 2])):
            intervals.append({'open': bracket_alts('[('), 'lo': number_alts(rng.choice(['1', '0'])), 'hi': number_alts(rng.choice(['2', '3'])),
                              'close': bracket_alts('])'), 'grade_decimal': rng.choice([1, 1, 0.5]), 'msg': rng.choice(['', 'interval msg'])})

        def build(order_seed):
            r2 = __import__('random').Random(order_seed)
            alist = []
            for iv in intervals:
                parts = []
                for k in ('open', 'lo', 'hi', 'close'):
                    alts = [dict(a) for a in iv[k]]
                    r2.shuffle(alts)
                    parts.append(tuple(alts))
                alist.append({'expect': parts, 'grade_decimal': iv['grade_decimal'], 'msg': iv['msg']})
            r2.shuffle(alist)
            return IntervalGrader(answers=tuple(alist), partial_credit=partial_credit)
        try:
            graders = [build(k) for k in range(4)]
        except Exception as exc:  # noqa
            ctx.count('interval_spec_rejected')
            continue
        for _ in range(3):
            so, sc = rng.choice('[('), rng.choice('])')
            slo, shi = rng.choice(list(NUMS)), rng.choice(list(NUMS))
            inp = '%s%s, %s%s' % (so, slo, shi, sc)
            best = 0.0
            for iv in intervals:
                halves = []
                for num_alts, s_num, br_alts, s_br in ((iv['lo'], slo, iv['open'], so), (iv['hi'], shi, iv['close'], sc)):
                    nc = credit_of(num_alts, lambda e: NUMS[e] == NUMS[s_num]) or 0
                    bc = credit_of(br_alts, lambda e: e == s_br)
                    halves.append(nc * (bc if bc is not None else 0) if nc else 0)
                tot = (sum(halves) / 2.0) if partial_credit else (1.0 if all(abs(h - 1) < 1e-12 for h in halves) else 0.0)
                best = max(best, tot * iv['grade_decimal'])
            legal = set(['interval msg', 'numhint', 'bracket hint', 'b', 'dup', ''])
            seen = set()
            for k, g in enumerate(graders):
                out = lib.call(ctx, g, None, inp)
                ctx.ev()
                ctx.count('full_grader_calls')
                ctx.count('interval_calls')
                wit = {'grader': 'IntervalGrader', 'partial_credit': partial_credit, 'intervals': intervals, 'input': inp,
                       'listing_order_seed': k, 'outcome': out.brief()}
                if not out.returned:
                    ctx.violation('C08:interval:raises', repr(out.exc), wit)
                    break
                if abs(out.value['grade_decimal'] - best) > 1e-9:
                    ctx.violation('C08:interval:grade_not_maximal', 'grade %r, the documented rule gives %r' % (out.value['grade_decimal'], best), wit)
                    break
                lines = out.value['msg'].replace('<br/>', '').split('\n')
                if any(l not in legal for l in lines):
                    ctx.violation('C08:interval:message_of_foreign_origin', 'message %r' % (out.value['msg'],), wit)
                    break
                seen.add(round(out.value['grade_decimal'], 9))
            if len(seen) > 1:
                ctx.violation('C08:interval:order_dependent', 'grades over listing orders: %r' % sorted(seen), wit)
            if best not in (0.0, 1.0):
                ctx.nontrivial(['interval', intervals, inp, partial_credit])


def run(ctx):
    run_item(ctx)
    run_lists(ctx)
    run_author_comparer(ctx)
    run_interval(ctx)
