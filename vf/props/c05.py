"""
C05 -- ListGrader gives the best consistent assignment and reports it per input box.

Device: a harness-defined table-driven ItemGrader (TableGrader) realises arbitrary credit
matrices; its messages carry unique ids 'T/A=<answer>/I=<input>' so every returned entry
identifies the (answer, input) pair that produced it.  Oracle: exhaustive search over all
assignments (n!) on the credit matrix read from the table; a tap on Munkres.compute validates
every cost matrix the real code solved on the way with the exact subset-DP optimum.
"""
import itertools
import re

from vf import lib
from vf.oracle import assign

RULE = ('n <= 5 inputs (quick, up to 60 permutations each; <= 6 thorough with all 720) of the inputs; credits from {0, .1, 1/3, '
        '.45, .5, .7, 1}; answers with alternatives; 1-3 alternative answer lists; ordered / unordered; '
        'partial_credit on/off; single subgrader and subgrader lists; groupings of up to 8 inputs with '
        'nested ListGraders (equal sizes when unordered, interleaved group indices). Non-trivial = credit '
        'matrix with at least two different assignments of different total (unordered) or any partial '
        'credit (ordered); distinct by (configuration, permutation).')
ASSUMPTIONS = ['answers and inputs are unique tokens so that each entry message identifies its pair',
               'totals compared at 1e-9; among equally good assignments / lists any may be reported']

PALETTE = [0, 0, 0.1, 1 / 3., 0.45, 0.5, 0.7, 1, 1]
MSG_RE = re.compile(r'T/A=([^/|\n]+)/I=([^/|\n]*)')
TAP = {'solves': 0, 'bad': []}


def gates(tier):
    return {'list_calls': 4000, 'unordered_calls': 1500, 'ordered_calls': 800, 'multi_list_calls': 600,
            'grouped_calls': 400, 'no_partial_credit_calls': 600, 'permutation_sets': 150,
            'munkres_solves_validated': 2000, 'nontrivial_unordered': 800, 'singlelist_subgrader_calls': 1000,
            'direct_order_calls': 30000, 'grouped_multi_calls': 1500, 'grouped_multi_list_calls': 800, 'grouped_no_partial_credit_calls': 400, 'grouped_sparse_calls': 300, 'grouped_calls_group_larger_than_group_count': 300, 'sibling_layouts': 100, 'sibling_lists_checked': 400, 'sibling_formula_problems': 100}


def install_tap(ctx):
    from mitxgraders.helpers import munkres
    if getattr(munkres.Munkres.compute, '_vf', False):
        return
    orig = munkres.Munkres.compute

    def tapped(self, cost_matrix):
        import copy
        before = copy.deepcopy(cost_matrix)
        out = orig(self, cost_matrix)
        TAP['solves'] += 1
        try:
            prob = assign.check_matching(before, out)
            if prob is None:
                got = sum(before[i][j] for i, j in out)
                opt = assign.min_cost(before)
                if abs(got - opt) > 1e-9 * max(1.0, sum(abs(x) for r in before for x in r)):
                    prob = 'total %r, optimum %r' % (got, opt)
            if prob is None and before != cost_matrix:
                prob = 'caller matrix modified'
        except Exception as exc:  # noqa  (the monitor must never disturb the call it observes)
            prob = 'result could not be judged: %r' % (exc,)
        if prob:
            TAP['bad'].append((before, out, prob))
        return out
    tapped._vf = True
    munkres.Munkres.compute = tapped


def rand_matrix(rng, n, kind):
    if kind == 'identity':
        return [[1 if i == j else 0 for j in range(n)] for i in range(n)]
    if kind == 'diag_dominant':
        return [[(1 if rng.random() < 0.8 else rng.choice(PALETTE)) if i == j else (rng.choice(PALETTE) if rng.random() < 0.4 else 0)
                 for j in range(n)] for i in range(n)]
    if kind == 'fine':
        # finely graded credits: assignments that differ by less than 0.01 per box must still be told apart
        base = rng.choice([0.33, 0.5, 0.66])
        return [[round(base + rng.randint(-9, 9) * 0.001, 3) for _ in range(n)] for _ in range(n)]
    if kind == 'float':
        return [[round(rng.random(), 4) for _ in range(n)] for _ in range(n)]
    if kind == 'ultrafine':
        # totals of different assignments / lists differ by 1e-7 .. 1e-5 only: still different
        base = rng.choice([1 / 3., 0.5, 0.99999])
        return [[min(1.0, base + rng.randint(-9, 9) * 1e-7) for _ in range(n)] for _ in range(n)]
    return [[rng.choice(PALETTE) for _ in range(n)] for _ in range(n)]


def make_answers(rng, n, C, prefix):
    """answers (unique expect tokens) realising credit matrix C[answer][input]; some with alternatives."""
    table, answers, owner = {}, [], {}
    for i in range(n):
        tok = '%sA%d' % (prefix, i)
        owner[tok] = i
        if rng.random() < 0.25:
            # an alternative with its own credit factor: effective credit = max(C, f * C')
            alt = tok + 'x'
            owner[alt] = i
            f = rng.choice([0.5, 0.25])
            altd = {'expect': alt, 'grade_decimal': f, 'msg': 'altmsg'}
            if rng.random() < 0.4:
                altd['ok'] = rng.choice([True, 'partial', False])      # an explicit ok beside a partial credit has no effect
            answers.append((tok, altd))
            for j in range(n):
                table[(tok, 'I%d' % j)] = C[i][j]
                table[(alt, 'I%d' % j)] = rng.choice(PALETTE)
        else:
            answers.append(tok)
            for j in range(n):
                table[(tok, 'I%d' % j)] = C[i][j]
    return answers, table, owner


def eff_credit(answer, table, inp):
    if isinstance(answer, tuple):
        base, alt = answer
        return max(table.get((base, inp), 0), table.get((alt['expect'], inp), 0) * alt['grade_decimal'])
    return table.get((answer, inp), 0)


def parse_entry(entry):
    m = MSG_RE.search(entry['msg'])
    return (m.group(1), m.group(2)) if m else (None, None)


def check_flat(ctx, key, result, inputs, lists, ordered, partial_credit, wit, rows_expected=None):
    """lists: [(answers, table, owner)], inputs: submitted tokens in box order."""
    n = len(inputs)
    if set(result) != {'overall_message', 'input_list'} or len(result['input_list']) != n:
        ctx.violation(key + ':result_form', 'expected %d entries: %r' % (n, result), wit)
        return
    entries = result['input_list']
    # model totals per list
    totals = []
    for answers, table, owner in lists:
        P = [[eff_credit(answers[i], table, inputs[j]) for j in range(n)] for i in range(n)]
        if ordered:
            totals.append((sum(P[(rows_expected or list(range(n)))[j]][j] for j in range(n)), P))
        else:
            totals.append((assign.max_profit(P), P))
    best = max(t for t, _ in totals)
    # which list do the entries come from?  (by the owner tables of the messages)
    parsed = [parse_entry(e) for e in entries]
    for j, (a, inp) in enumerate(parsed):
        if inp is None:
            ctx.violation(key + ':entry_without_id', 'entry %d has no id message: %r' % (j, entries[j]), wit)
            return
        if inp != inputs[j]:
            ctx.violation(key + ':entry_at_wrong_position',
                          'entry %d grades input %r but box %d holds %r' % (j, inp, j, inputs[j]), dict(wit, result=result))
            return
    used_lists = set()
    for a, _ in parsed:
        for li, (answers, table, owner) in enumerate(lists):
            if a in owner:
                used_lists.add(li)
    if len(used_lists) != 1:
        ctx.violation(key + ':mixed_answer_lists', 'entries come from answer lists %r' % sorted(used_lists), dict(wit, result=result))
        return
    li = used_lists.pop()
    answers, table, owner = lists[li]
    rows = [owner[a] for a, _ in parsed]
    if ordered:
        if rows != (rows_expected or list(range(n))):
            ctx.violation(key + ':ordered_pairing', 'entry j must grade answer %r; got answers %r' % (rows_expected or 'j', rows), dict(wit, result=result))
            return
    elif len(set(rows)) != n:
        ctx.violation(key + ':not_one_to_one', 'answers used: %r' % rows, dict(wit, result=result))
        return
    P = totals[li][1]
    raw = [P[rows[j]][j] for j in range(n)]
    total = sum(raw)
    all_perfect = all(abs(g - 1) < 1e-12 for g in raw)
    if abs(total - best) > 1e-9:
        ctx.violation(key + (':suboptimal_list' if abs(totals[li][0] - best) > 1e-9 else ':suboptimal_assignment'),
                      'reported total %r, best possible %r' % (total, best), dict(wit, result=result))
        return
    for j, e in enumerate(entries):
        want = raw[j]
        if not partial_credit and not all_perfect:
            want = 0
        if abs(e['grade_decimal'] - want) > 1e-9:
            ctx.violation(key + (':no_partial_credit_rule' if not partial_credit else ':entry_grade'),
                          'entry %d has grade %r, its pair earns %r' % (j, e['grade_decimal'], want), dict(wit, result=result))
            return
        okw = True if want == 1 else (False if want == 0 else 'partial')
        if e['ok'] != okw:
            ctx.violation(key + ':entry_ok', 'entry %d grade %r ok=%r' % (j, e['grade_decimal'], e['ok']), dict(wit, result=result))
            return
    return best


def run_flat(ctx):
    from mitxgraders import ListGrader
    rng = ctx.rng
    nmax = ctx.pick(5, 6)
    for i in range(ctx.n(2400, 12000)):
        n = rng.randint(2, nmax)
        ordered = rng.random() < 0.3
        partial_credit = rng.random() < 0.7
        nlists = rng.choice([1, 1, 2, 3])
        lists = []
        tie_pattern = nlists == 3 and rng.random() < 0.4
        for li in range(nlists):
            C = rand_matrix(rng, n, rng.choice(['identity', 'diag_dominant', 'random', 'random', 'fine', 'float', 'ultrafine']))
            if tie_pattern:
                # lists 0 and 2 reach exactly the same best total with the credit spread differently over the boxes,
                # list 1 is strictly worse: the tie-break between alternative lists must still return a best one
                d = [1, 0.5, 0.25, 1, 0.5, 0.25][:n]
                if li == 1:
                    C = [[0.25 if a == b else 0 for b in range(n)] for a in range(n)]
                else:
                    rot = d if li == 0 else d[1:] + d[:1]
                    C = [[rot[a] if a == b else 0 for b in range(n)] for a in range(n)]
            lists.append(make_answers(rng, n, C, 'L%d' % li))
        table = {}
        for _, t, _ in lists:
            table.update(t)
        if rng.random() < 0.2:
            # credits handed back as numpy scalars (what an author computing credits with numpy would produce)
            import numpy as _np
            table = {k_: _np.float64(v_) for k_, v_ in table.items()}
            ctx.count('numpy_credit_tables')
        sub = lib.TableGrader(table=table, ids=True, msg_on_zero=True)
        use_list = ordered and rng.random() < 0.4
        subgraders = [lib.TableGrader(table=table, ids=True) for _ in range(n)] if use_list else sub
        answers = [l[0] for l in lists]
        debug = rng.random() < 0.15
        if debug:
            ctx.count('debug_list_graders')
        perm_grouping = None
        if use_list and rng.random() < 0.5:
            # every box its own group, boxes listed in another order than the answers: box j is graded by answer/subgrader grouping[j]
            perm_grouping = list(range(1, n + 1))
            rng.shuffle(perm_grouping)
            ctx.count('singleton_group_permutations')
        g = ListGrader(answers=answers[0] if nlists == 1 else tuple(answers), subgraders=subgraders, ordered=ordered,
                       partial_credit=partial_credit, debug=debug, **({'grouping': perm_grouping} if perm_grouping else {}))
        base_inputs = ['I%d' % j for j in range(n)]
        if rng.random() < 0.15:
            # one box left blank: what a blank earns is for the subgrader to say (here: whatever the table says)
            blank_at = rng.randrange(n)
            for key_ in list(table):
                if key_[1] == 'I%d' % blank_at:
                    table[(key_[0], '')] = table.pop(key_)
            for l_ in lists:
                for key_ in list(l_[1]):
                    if key_[1] == 'I%d' % blank_at:
                        l_[1][(key_[0], '')] = l_[1].pop(key_)
            base_inputs[blank_at] = ''
            sub = lib.TableGrader(table=table, ids=True, msg_on_zero=True)
            subgraders = [lib.TableGrader(table=table, ids=True) for _ in range(n)] if use_list else sub
            g = ListGrader(answers=answers[0] if nlists == 1 else tuple(answers), subgraders=subgraders, ordered=ordered,
                           partial_credit=partial_credit, debug=debug, **({'grouping': perm_grouping} if perm_grouping else {}))
            ctx.count('blank_box_cases')
        perms = list(itertools.permutations(base_inputs))
        if len(perms) > ctx.pick(60, 720):
            perms = rng.sample(perms, ctx.pick(60, 720))
        ctx.count('permutation_sets')
        wit0 = {'n': n, 'ordered': ordered, 'partial_credit': partial_credit, 'debug': debug, 'answer_lists': answers,
                'table': sorted([[a, b, c] for (a, b), c in table.items() if c])}
        bests = set()
        nontrivial = False
        for perm in perms:
            inputs = list(perm)
            out = lib.call(ctx, g, None, inputs)
            ctx.ev()
            ctx.count('list_calls')
            ctx.count('ordered_calls' if ordered else 'unordered_calls')
            if nlists > 1:
                ctx.count('multi_list_calls')
            if not partial_credit:
                ctx.count('no_partial_credit_calls')
            wit = dict(wit0, inputs=inputs)
            key = 'C05:%s%s' % ('ordered' if ordered else 'unordered', ':lists' if nlists > 1 else '')
            if not out.returned:
                ctx.violation(key + ':raises', repr(out.exc), wit)
                break
            best = check_flat(ctx, key, out.value, inputs, lists, ordered, partial_credit, dict(wit, grouping=perm_grouping),
                              rows_expected=[g_ - 1 for g_ in perm_grouping] if perm_grouping else None)
            if best is None:
                break
            bests.add(round(best, 9))
        if not ordered:
            if len(bests) > 1:
                ctx.violation('C05:unordered:total_depends_on_input_order', 'totals over permutations: %r' % sorted(bests), wit0)
            # non-triviality: at least two assignments with different totals
            P = [[eff_credit(lists[0][0][a], lists[0][1], base_inputs[j]) for j in range(n)] for a in range(n)]
            if assign.max_profit(P) - (-assign.max_profit([[-x for x in r] for r in P])) > 1e-9:
                ctx.count('nontrivial_unordered')
                nontrivial = True
        if nontrivial or ordered:
            ctx.nontrivial(wit0)
        if i < 2:
            ctx.sample(wit0)


def run_grouped(ctx):
    """Nested ListGraders with groupings; entries must come back at the position of their input."""
    from mitxgraders import ListGrader
    rng = ctx.rng
    for i in range(ctx.n(2400, 30000)):
        ngroups = rng.randint(2, 3)
        size = rng.choice([2, 3, 3, 4]) if ngroups == 2 else 2
        # "sparse": the student has only one box right per group (the group pairing must still be the best one)
        sparse = rng.random() < 0.4
        outer_ordered = rng.random() < 0.5
        inner_ordered = rng.random() < 0.5
        n = ngroups * size
        # answers: group g, slot s -> token; inputs unique
        table = {}
        answers = []
        owner = {}
        for gi in range(ngroups):
            grp = []
            for s in range(size):
                tok = 'G%dS%d' % (gi, s)
                owner[tok] = (gi, s)
                grp.append(tok)
            answers.append(grp)
        # assign boxes to groups (interleaved) : grouping list of length n with values 1..ngroups
        slots = [gi + 1 for gi in range(ngroups) for _ in range(size)]
        rng.shuffle(slots)
        # intended mapping: inputs placed so that a hidden permutation of groups / slots is correct
        gperm = list(range(ngroups))
        if not outer_ordered:
            rng.shuffle(gperm)          # input group k answers answer group gperm[k]
        inputs = [None] * n
        boxes_of_group = {k: [p for p, v in enumerate(slots) if v == k + 1] for k in range(ngroups)}
        truth = {}
        for k in range(ngroups):
            sperm = list(range(size))
            if not inner_ordered:
                rng.shuffle(sperm)
            lucky = rng.randrange(size)
            for idx, p in enumerate(boxes_of_group[k]):
                tok = 'I%d' % p
                inputs[p] = tok
                if not sparse or idx == lucky:
                    truth[p] = (gperm[k], sperm[idx])
        # credits: correct pair 1 (or partial), others mostly 0 with some noise smaller than the signal
        for p in range(n):
            for gi in range(ngroups):
                for s in range(size):
                    if truth.get(p) == (gi, s):
                        table[('G%dS%d' % (gi, s), inputs[p])] = rng.choice([1, 1, 0.7])
                    elif rng.random() < 0.15:
                        table[('G%dS%d' % (gi, s), inputs[p])] = rng.choice([0.1, 1 / 3.])
        # the group grader may carry answers of its own (it is a complete grader elsewhere in the course): inside a grouping it
        # grades each group against the answer the outer grader hands it, never against those
        own = {}
        if rng.random() < 0.25:
            own = {'answers': list(reversed(answers[rng.randrange(ngroups)]))}
            ctx.count('grouped_calls_group_grader_with_own_answers')
        inner = ListGrader(subgraders=lib.TableGrader(table=table, ids=True), ordered=inner_ordered, **own)
        g = ListGrader(answers=answers, subgraders=inner, ordered=outer_ordered, grouping=slots, debug=(i % 7 == 3))
        out = lib.call(ctx, g, None, list(inputs))
        ctx.ev()
        ctx.count('list_calls')
        ctx.count('grouped_calls')
        if sparse:
            ctx.count('grouped_sparse_calls')
        if size > ngroups:
            ctx.count('grouped_calls_group_larger_than_group_count')
        wit = {'grouping': slots, 'answers': answers, 'inputs': inputs, 'outer_ordered': outer_ordered,
               'inner_ordered': inner_ordered, 'table': sorted([[a, b, c] for (a, b), c in table.items()]), 'outcome': out.brief()}
        ctx.nontrivial(wit)
        if not out.returned:
            ctx.violation('C05:grouped:raises', repr(out.exc), wit)
            continue
        res = out.value
        if len(res.get('input_list', [])) != n:
            ctx.violation('C05:grouped:result_form', 'expected %d entries' % n, wit)
            continue
        parsed = [parse_entry(e) for e in res['input_list']]
        bad = False
        for p, (a, inp) in enumerate(parsed):
            if inp != inputs[p]:
                ctx.violation('C05:grouped:entry_at_wrong_position', 'entry %d grades %r, box holds %r' % (p, inp, inputs[p]), wit)
                bad = True
                break
        if bad:
            continue
        # group-level consistency: all boxes of one input group map into one answer group, injectively
        gmap = {}
        ok = True
        for k in range(ngroups):
            ags = set(owner[parsed[p][0]][0] for p in boxes_of_group[k])
            sls = [owner[parsed[p][0]][1] for p in boxes_of_group[k]]
            if len(ags) != 1 or len(set(sls)) != size:
                ok = False
            else:
                gmap[k] = ags.pop()
        if not ok or len(set(gmap.values())) != ngroups or (outer_ordered and any(gmap[k] != k for k in gmap)):
            ctx.violation('C05:grouped:inconsistent_assignment', 'pairs %r' % (parsed,), wit)
            continue
        if inner_ordered:
            for k in range(ngroups):
                if [owner[parsed[p][0]][1] for p in boxes_of_group[k]] != list(range(size)):
                    ctx.violation('C05:grouped:inner_ordered_pairing', 'pairs %r' % (parsed,), wit)
                    ok = False
                    break
            if not ok:
                continue
        # optimality: exhaustive search over group assignments x inner assignments
        def inner_best(ag, k):
            P = [[table.get(('G%dS%d' % (ag, s), inputs[p]), 0) for p in boxes_of_group[k]] for s in range(size)]
            return sum(P[s][s] for s in range(size)) if inner_ordered else assign.max_profit(P)
        if outer_ordered:
            best = sum(inner_best(k, k) for k in range(ngroups))
        else:
            best = max(sum(inner_best(perm[k], k) for k in range(ngroups)) for perm in itertools.permutations(range(ngroups)))
        total = sum(e['grade_decimal'] for e in res['input_list'])
        model_total = sum(table.get((parsed[p][0], inputs[p]), 0) for p in range(n))
        if abs(total - model_total) > 1e-9:
            ctx.violation('C05:grouped:entry_grade', 'entries sum to %r, their pairs earn %r' % (total, model_total), wit)
        elif abs(total - best) > 1e-9:
            ctx.violation('C05:grouped:suboptimal', 'total %r, best possible %r' % (total, best), wit)


def run_grouped_multi(ctx):
    """Grouped layouts with 1-3 alternative answer LISTS and with partial_credit on/off at the outer level."""
    from mitxgraders import ListGrader
    rng = ctx.rng
    for i in range(ctx.n(2400, 30000)):
        ngroups, size = rng.choice([(2, 2), (2, 2), (2, 3), (3, 2)])
        n = ngroups * size
        nlists = rng.choice([1, 2, 2, 3])
        outer_ordered = rng.random() < 0.5
        inner_ordered = rng.random() < 0.5
        partial_credit = rng.random() < 0.6
        slots = [gi + 1 for gi in range(ngroups) for _ in range(size)]
        if rng.random() < 0.5:
            rng.shuffle(slots)
        boxes = {k: [p for p, v in enumerate(slots) if v == k + 1] for k in range(ngroups)}
        inputs = ['I%d' % p for p in range(n)]
        lists, owner, table = [], {}, {}
        style = rng.choice(['perfect_for_one', 'random', 'random'])
        for li in range(nlists):
            groups = []
            for gi in range(ngroups):
                grp = []
                for s_ in range(size):
                    tok = 'L%dG%dS%d' % (li, gi, s_)
                    owner[tok] = (li, gi, s_)
                    grp.append(tok)
                groups.append(grp)
            lists.append(groups)
        if style == 'perfect_for_one':
            # the submission is entirely right for one of the lists (so partial_credit=False must keep full marks)
            li = rng.randrange(nlists)
            gp = list(range(ngroups))
            if not outer_ordered:
                rng.shuffle(gp)
            for k in range(ngroups):
                sp = list(range(size))
                if not inner_ordered:
                    rng.shuffle(sp)
                for idx, p in enumerate(boxes[k]):
                    table[('L%dG%dS%d' % (li, gp[k], sp[idx]), inputs[p])] = 1
        for tok in owner:
            for inp in inputs:
                if (tok, inp) not in table and rng.random() < 0.3:
                    table[(tok, inp)] = rng.choice([0.1, 1 / 3., 0.5, 0.7, 1, 1])
        inner = ListGrader(subgraders=lib.TableGrader(table=table, ids=True, msg_on_zero=True), ordered=inner_ordered)
        g = ListGrader(answers=lists[0] if nlists == 1 else tuple(lists), subgraders=inner, ordered=outer_ordered, grouping=slots,
                       partial_credit=partial_credit)
        out = lib.call(ctx, g, None, list(inputs))
        ctx.ev()
        ctx.count('list_calls')
        ctx.count('grouped_multi_calls')
        if nlists > 1:
            ctx.count('grouped_multi_list_calls')
        if not partial_credit:
            ctx.count('grouped_no_partial_credit_calls')
        wit = {'grouping': slots, 'answer_lists': lists, 'inputs': inputs, 'outer_ordered': outer_ordered, 'inner_ordered': inner_ordered,
               'outer_partial_credit': partial_credit, 'table': sorted([[a, b, c] for (a, b), c in table.items()]), 'outcome': out.brief()}
        ctx.nontrivial(wit)
        if not out.returned:
            ctx.violation('C05:grouped_multi:raises', repr(out.exc), wit)
            continue
        entries = out.value.get('input_list', [])
        if len(entries) != n:
            ctx.violation('C05:grouped_multi:result_form', 'expected %d entries' % n, wit)
            continue

        def list_best(li):
            def inner_best(ag, k):
                P = [[table.get(('L%dG%dS%d' % (li, ag, s_), inputs[p]), 0) for p in boxes[k]] for s_ in range(size)]
                return sum(P[s_][s_] for s_ in range(size)) if inner_ordered else assign.max_profit(P)
            if outer_ordered:
                return sum(inner_best(k, k) for k in range(ngroups))
            return max(sum(inner_best(perm[k], k) for k in range(ngroups)) for perm in itertools.permutations(range(ngroups)))
        best = max(list_best(li) for li in range(nlists))
        perfect = abs(best - n) < 1e-9
        parsed = [parse_entry(e) for e in entries]
        if any(inp != inputs[p] for p, (a, inp) in enumerate(parsed)):
            ctx.violation('C05:grouped_multi:entry_at_wrong_position', 'pairs %r' % (parsed,), wit)
            continue
        if len(set(owner[a][0] for a, _ in parsed)) != 1 or len(set(a for a, _ in parsed)) != n:
            ctx.violation('C05:grouped_multi:inconsistent_assignment', 'entries use answers %r' % ([a for a, _ in parsed],), wit)
            continue
        earned = sum(table.get((a, inp), 0) for a, inp in parsed)
        if abs(earned - best) > 1e-9:
            used = owner[parsed[0][0]][0]
            ctx.violation('C05:grouped_multi:' + ('suboptimal_list' if abs(list_best(used) - best) > 1e-9 else 'suboptimal_assignment'),
                          'the reported pairs earn %r, the best answer list / assignment earns %r' % (earned, best), wit)
            continue
        for p, e in enumerate(entries):
            want = table.get(parsed[p], 0)
            if not partial_credit and not perfect:
                want = 0
            if abs(e['grade_decimal'] - want) > 1e-9:
                ctx.violation('C05:grouped_multi:' + ('no_partial_credit_rule' if not partial_credit else 'entry_grade'),
                              'entry %d has grade %r, expected %r (all boxes right: %s)' % (p, e['grade_decimal'], want, perfect), wit)
                break


def run_explicit_ok(ctx):
    """partial_credit=False looks at what the boxes EARN: an alternative worth less than 1 is not 'fully correct', whatever
    ok value its author wrote beside the credit."""
    from mitxgraders import ListGrader, StringGrader, NumericalGrader
    rng = ctx.rng
    for i in range(ctx.n(480, 6000)):
        n = rng.randint(2, 4)
        toks = ['a', 'b', 'c', 'd'][:n]
        k = rng.randrange(n)
        credit = rng.choice([0.5, 0.25, 0.99])
        okv = rng.choice([True, True, 'partial', False])
        numeric = rng.random() < 0.3
        if numeric:
            toks = ['1', '2', '3', '4'][:n]
        answers = list(toks)
        answers[k] = {'expect': toks[k], 'grade_decimal': credit, 'ok': okv}
        ordered = rng.random() < 0.5
        g = ListGrader(answers=answers, subgraders=NumericalGrader() if numeric else StringGrader(), ordered=ordered, partial_credit=False)
        inputs = list(toks)
        if not ordered:
            rng.shuffle(inputs)
        out = lib.call(ctx, g, None, list(inputs))
        ctx.ev()
        ctx.count('list_calls')
        ctx.count('no_partial_credit_calls')
        ctx.count('explicit_ok_cases')
        wit = {'answers': answers, 'inputs': inputs, 'ordered': ordered, 'partial_credit': False, 'outcome': out.brief()}
        ctx.nontrivial(wit)
        if not out.returned:
            ctx.violation('C05:explicit_ok:raises', repr(out.exc), wit)
        elif any(e['grade_decimal'] != 0 for e in out.value['input_list']):
            ctx.violation('C05:explicit_ok:no_partial_credit_rule', 'one box earns only %r, yet the entries are %r' % (credit, out.value['input_list']), wit)


def run_singlelist_subgrader(ctx):
    """ListGrader whose subgrader is a SingleListGrader: every box holds a delimited list."""
    from mitxgraders import ListGrader, SingleListGrader
    from vf.oracle import listmodel
    rng = ctx.rng
    alpha = ['a', 'b', 'c', 'd', 'e', 'f']
    for i in range(ctx.n(1600, 20000)):
        n = rng.randint(2, 4)
        ordered = rng.random() < 0.4
        inner_ordered = rng.random() < 0.5
        table = {(e, e): 1 for e in alpha}
        for _ in range(rng.randint(0, 4)):
            table[(rng.choice(alpha), rng.choice(alpha))] = rng.choice([0.5, 1 / 3., 0.1])
        answers = [rng.sample(alpha, rng.randint(1, 3)) for _ in range(n)]
        inner = SingleListGrader(subgrader=lib.TableGrader(table=table, ids=False), ordered=inner_ordered)
        g = ListGrader(answers=[list(a) for a in answers], subgraders=inner, ordered=ordered)
        boxes = []
        for a in rng.sample(answers, n):
            items = list(a)
            op = rng.choice(['same', 'shuffle', 'drop', 'add', 'swap'])
            if op == 'shuffle':
                rng.shuffle(items)
            elif op == 'drop' and len(items) > 1:
                items.pop()
            elif op == 'add':
                items.append(rng.choice(alpha))
            elif op == 'swap':
                items[0] = rng.choice(alpha)
            boxes.append(items)
        inputs = [', '.join(b) for b in boxes]

        def inner_grade(ans, sub_items):
            C = [[table.get((e, s_), 0) for s_ in sub_items] for e in ans]
            frac, _ = listmodel.single_list_credit(C, len(ans), len(sub_items), inner_ordered, True)
            return frac
        P = [[inner_grade(answers[a], boxes[j]) for j in range(n)] for a in range(n)]
        best = sum(P[k][k] for k in range(n)) if ordered else assign.max_profit(P)
        out = lib.call(ctx, g, None, list(inputs))
        ctx.ev()
        ctx.count('list_calls')
        ctx.count('singlelist_subgrader_calls')
        wit = {'answers': answers, 'inputs': inputs, 'ordered': ordered, 'inner_ordered': inner_ordered,
               'table_offdiagonal': sorted([[a, b, c] for (a, b), c in table.items() if a != b]), 'outcome': out.brief()}
        ctx.nontrivial(wit)
        if not out.returned:
            ctx.violation('C05:singlelist_sub:raises', repr(out.exc), wit)
            continue
        entries = out.value['input_list']
        if len(entries) != n:
            ctx.violation('C05:singlelist_sub:result_form', 'expected %d entries' % n, wit)
            continue
        grades = [e['grade_decimal'] for e in entries]
        if abs(sum(grades) - best) > 1e-9:
            ctx.violation('C05:singlelist_sub:' + ('ordered_pairing' if ordered else 'suboptimal'),
                          'total %r, best possible %r (credit matrix %r)' % (sum(grades), best, P), wit)
            continue
        perms = [tuple(range(n))] if ordered else itertools.permutations(range(n))
        if not any(all(abs(grades[j] - P[p[j]][j]) <= 1e-9 for j in range(n)) for p in perms):
            ctx.violation('C05:singlelist_sub:entries_not_at_input_positions',
                          'entry grades %r match no one-to-one assignment of the credit matrix %r' % (grades, P), wit)


def run_direct_order(ctx):
    """find_optimal_order itself on larger / partial-credit matrices than whole graders can be driven through cheaply."""
    from mitxgraders.listgrader import find_optimal_order
    rng = ctx.rng
    palettes = [[0, 0.5, 1], [0, 0.25, 0.5, 0.75, 1], [k / 10. for k in range(11)], None]
    for i in range(ctx.n(40000, 600000)):
        n = rng.choice([4, 5, 5, 6, 6, 6, 7])
        pal = rng.choice(palettes)
        C = [[(rng.choice(pal) if pal else round(rng.random(), 3)) for _ in range(n)] for _ in range(n)]   # C[input][answer]

        def check(a, inp, C=C):
            g = C[inp][a]
            return {'ok': g == 1, 'grade_decimal': g, 'msg': '%d|%d' % (a, inp)}
        try:
            res = find_optimal_order(check, list(range(n)), list(range(n)))
        except Exception as exc:  # noqa
            ctx.violation('C05:direct:raises', repr(exc), {'credits': C})
            continue
        ctx.ev()
        ctx.count('direct_order_calls')
        pairs = [tuple(int(x) for x in r['msg'].split('|')) for r in res]
        wit = {'credits_by_input_then_answer': C, 'pairs_answer_input': pairs}
        if [p[1] for p in pairs] != list(range(n)):
            ctx.violation('C05:direct:entry_at_wrong_position', 'entries are for inputs %r' % [p[1] for p in pairs], wit)
            continue
        if sorted(p[0] for p in pairs) != list(range(n)):
            ctx.violation('C05:direct:not_one_to_one', 'answers used %r' % [p[0] for p in pairs], wit)
            continue
        total = sum(r['grade_decimal'] for r in res)
        best = assign.max_profit(C)
        if abs(total - best) > 1e-9:
            ctx.violation('C05:direct:suboptimal_assignment', 'total %r, best possible %r' % (total, best), wit)
        if i % 50 == 0:
            ctx.nontrivial(['direct', C])


def run_siblings(ctx):
    """Ordered lists: "the i-th result is exactly what the i-th subgrader returns for the i-th answer and the i-th input" -- a
    subgrader is also told its siblings (docs/grading_math/formula_grader.md: sibling_j is the j-th student input; with
    grouping, the j-th member of the group).  (a) a recording item grader sees exactly one sibling entry per (grouped) input,
    in input order; (b) hand-listed formula problems over layouts with non-formula boxes and groups in front."""
    from mitxgraders import ListGrader, FormulaGrader, NumericalGrader, StringGrader
    from mitxgraders.baseclasses import ItemGrader
    rng = ctx.rng
    seen = []

    class Recorder(ItemGrader):
        def check_response(self, answer, student_input, **kwargs):
            sibs = kwargs.get('siblings')
            seen.append((student_input, None if sibs is None else [s_['input'] for s_ in sibs], None if sibs is None else [s_['grader'] for s_ in sibs]))
            ok = answer['expect'] == student_input
            return {'ok': ok, 'grade_decimal': 1 if ok else 0, 'msg': ''}

    for rep in range(ctx.n(160, 3000)):
        ngroups = rng.randint(2, 5)
        sizes = [rng.choice([1, 1, 2, 3]) for _ in range(ngroups)]
        if all(z == 1 for z in sizes) and rng.random() < 0.7:
            sizes[rng.randrange(ngroups)] = 2
        slots = [gi + 1 for gi, z in enumerate(sizes) for _ in range(z)]
        rng.shuffle(slots)
        n = len(slots)
        inputs = ['in%d' % p_ for p_ in range(n)]
        members = {gi: [inputs[p_] for p_, v in enumerate(slots) if v == gi + 1] for gi in range(ngroups)}
        answers, subgraders = [], []
        for gi, z in enumerate(sizes):
            if z == 1:
                answers.append(members[gi][0])
                subgraders.append(Recorder())
            else:
                answers.append(list(members[gi]))
                subgraders.append(ListGrader(subgraders=Recorder(), ordered=True))
        del seen[:]
        g = ListGrader(answers=answers, subgraders=subgraders, ordered=True, grouping=slots)
        out = lib.call(ctx, g, None, list(inputs))
        ctx.ev()
        ctx.count('list_calls')
        ctx.count('sibling_layouts')
        wit = {'grouping': slots, 'inputs': inputs, 'answers': answers, 'outcome': out.brief()}
        ctx.nontrivial(['siblings', slots])
        if not out.returned or [e['grade_decimal'] for e in out.value['input_list']] != [1] * n:
            ctx.violation('C05:siblings:verdict', 'every box holds its own answer: %r' % (out.brief(),), wit)
            continue
        outer = [members[gi][0] if sizes[gi] == 1 else list(members[gi]) for gi in range(ngroups)]
        for student_input, sibs, graders in seen:
            gi = next(k for k in range(ngroups) if student_input in members[k])
            want = outer if sizes[gi] == 1 else list(members[gi])
            ctx.count('sibling_lists_checked')
            if sibs != want:
                ctx.violation('C05:siblings:' + ('outer_list' if sizes[gi] == 1 else 'inside_group'),
                              'the subgrader of box %r was told siblings %r; the (grouped) inputs are %r' % (student_input, sibs, want), wit)
                break
            if sizes[gi] == 1 and any(a is not b for a, b in zip(graders, subgraders)):
                ctx.violation('C05:siblings:grader_entries', 'sibling entries do not name the subgraders of their boxes', wit)
                break

    F = lambda: FormulaGrader(variables=['x'])
    table = [
        # answers, subgraders, grouping, inputs, expected grades
        (['cat', 'x', '2*sibling_2'], lambda: [StringGrader(), F(), F()], None, ['cat', 'x', '2*x'], [1, 1, 1]),
        (['cat', 'x', '2*sibling_2'], lambda: [StringGrader(), F(), F()], None, ['cat', 'x+1', '2*x'], [1, 0, 0]),
        (['x', 'cat', 'sibling_1^2', 'dog', 'sibling_3+1'], lambda: [F(), StringGrader(), F(), StringGrader(), F()], None, ['x', 'cat', 'x^2', 'dog', 'x^2+1'], [1] * 5),
        (['x', 'cat', 'sibling_1^2', 'dog', 'sibling_3+1'], lambda: [F(), StringGrader(), F(), StringGrader(), F()], None, ['2*x', 'cat', '4*x^2', 'dog', '4*x^2+1'], [0, 1, 1, 1, 1]),
        ([['cat', 'dog'], 'x', 'sibling_2^2', 'sibling_3+1'], lambda: [ListGrader(subgraders=StringGrader()), F(), F(), F()], [1, 1, 2, 3, 4],
         ['dog', 'cat', 'x', 'x^2', 'x^2+1'], [1] * 5),
        (['x', ['cat', 'dog'], 'sibling_1^2', ['a', 'b', 'c'], 'sibling_3+sibling_1'], lambda: [F(), ListGrader(subgraders=StringGrader()), F(), ListGrader(subgraders=StringGrader()), F()],
         [1, 2, 3, 4, 2, 4, 5, 4], ['x', 'dog', 'x^2', 'c', 'cat', 'a', 'x^2+x', 'b'], [1] * 8),
        (['5', 'cat', 'sibling_1+1'], lambda: [NumericalGrader(), StringGrader(), NumericalGrader()], None, ['5', 'cat', '6'], [1, 1, 1]),
        (['5', 'cat', 'sibling_1+1'], lambda: [NumericalGrader(), StringGrader(), NumericalGrader()], None, ['7', 'cat', '8'], [0, 1, 1]),
        ([['x', 'sibling_1+1'], ['x^2', 'sibling_1*2']], lambda: ListGrader(subgraders=F(), ordered=True), [1, 2, 1, 2], ['x', 'x^2', 'x+1', '2*x^2'], [1] * 4),
    ]
    for rep in range(ctx.pick(2, 8)):
        for answers, mk, grouping, inputs, want in table:
            g = ListGrader(answers=answers, subgraders=mk(), ordered=True, **({'grouping': grouping} if grouping else {}))
            out = lib.call(ctx, g, None, list(inputs))
            ctx.ev()
            ctx.count('list_calls')
            ctx.count('sibling_formula_problems')
            wit = {'answers': answers, 'grouping': grouping, 'inputs': inputs, 'expected_grades': want, 'outcome': out.brief()}
            ctx.nontrivial(['sibling_formula', answers, inputs])
            if not out.returned:
                ctx.violation('C05:siblings:formula_problem:raises', repr(out.exc)[:200], wit)
            elif [e['grade_decimal'] for e in out.value['input_list']] != want:
                ctx.violation('C05:siblings:formula_problem:grades', 'grades %r, by the documented meaning of sibling_j %r'
                              % ([e['grade_decimal'] for e in out.value['input_list']], want), wit)


def run(ctx):
    install_tap(ctx)
    run_direct_order(ctx)
    run_flat(ctx)
    run_grouped(ctx)
    run_grouped_multi(ctx)
    run_explicit_ok(ctx)
    run_singlelist_subgrader(ctx)
    run_siblings(ctx)
    ctx.count('munkres_solves_validated', TAP['solves'])
    for before, out, prob in TAP['bad'][:3]:
        ctx.violation('C05:munkres_tap', 'a solve during grading was wrong: %s' % prob, {'matrix': before, 'result': out})
