"""
C07 -- SingleListGrader scores a delimited list by the documented credit formula.

Oracle: closed formula with exhaustive-search matching (oracle/listmodel.py); item credits are
arbitrary through the harness-defined table-driven TableGrader.  Monitor: grade / ok / message /
error class of every SingleListGrader call versus the model; all permutations of the submission
for unordered graders.
"""
import itertools

from vf import lib
from vf.oracle import listmodel

RULE = ('expected lists of 1-5 items (item alternatives with partial credit, 1-3 alternative lists, expect '
        'tuples, answer-level credit and message) x submissions of 1-7 items x ordered/unordered x '
        'partial_credit x length_error x missing_error x delimiters (single / multi-character) x blank '
        'items; arbitrary item-credit tables; all permutations of submissions of <=5 items for unordered '
        'graders; string-form answers, inferred expect, one level of nesting. Non-trivial = a case whose '
        'credit matrix has at least one partial credit or off-diagonal credit, a surplus/missing item, or '
        'an expected error; distinct by full case.')
ASSUMPTIONS = ['R5: among best-scoring alternatives any with the maximal message length may be reported; when '
               'several optimal matchings differ in "all items earned credit" either message outcome is accepted',
               'grades compared at 1e-9']

ALPHA = ['a', 'b', 'c', 'd', 'e', 'f']
PALETTE = [0, 0, 0.1, 1 / 3., 0.5, 0.7, 1]


def gates(tier):
    return {'calls': 5000, 'graded_calls': 3500, 'error_expected': 400, 'surplus_cases': 500, 'missing_cases': 500,
            'multi_alternative_cases': 1000, 'permutation_sets': 100, 'nested_cases': 150, 'dense_table_calls': 12000, 'delimiter_cases': 500, 'nested_error_expected': 8, 'nested_message_checks': 40, 'inferred_cases': 150,
            'message_expected': 300, 'partial_credit_false_cases': 800}


def rand_table(rng):
    table = {}
    for e in ALPHA:
        for s in ALPHA + ['zz']:
            if e == s:
                table[(e, s)] = 1 if rng.random() < 0.75 else rng.choice(PALETTE)
            elif rng.random() < 0.25:
                table[(e, s)] = rng.choice(PALETTE)
        if rng.random() < 0.15:
            table[(e, '')] = rng.choice(PALETTE)      # a subgrader may well credit a blank entry (when blanks are tolerated)
    return table


def rand_item(rng):
    """An expected item: plain string or tuple of alternatives with own credit."""
    if rng.random() < 0.75:
        e = rng.choice(ALPHA)
        return e, [(e, 1.0)]
    e1, e2 = rng.sample(ALPHA, 2)
    c2 = rng.choice([0.5, 0.25, 1])
    return (e1, {'expect': e2, 'grade_decimal': c2}), [(e1, 1.0), (e2, c2)]


def item_credit(table, alts, s):
    return max(table.get((e, s.strip()), 0) * c for e, c in alts)


def make_case(rng):
    table = rand_table(rng)
    n = rng.choice([1, 2, 3, 3, 4, 4, 5, 5])
    nlists = rng.choice([1, 1, 2, 2, 3])
    lists = []
    for li in range(nlists):
        items = [rand_item(rng) for _ in range(n)]
        lists.append({'items': [it[0] for it in items], 'alts': [it[1] for it in items],
                      'credit': rng.choice([1, 1, 0.5, 0.7, 0]), 'msg': rng.choice(['', 'LISTMSG%d' % li, 'LONGER-LISTMSG%d' % li])})
    if nlists > 1 and rng.random() < 0.4:
        # same credit and message for all lists, so that they can be given as one answer with an expect tuple
        for l in lists[1:]:
            l['credit'], l['msg'] = lists[0]['credit'], lists[0]['msg']
    cfg = {'ordered': rng.random() < 0.5, 'partial_credit': rng.random() < 0.65,
           'length_error': rng.random() < 0.25, 'missing_error': rng.random() < 0.5,
           'delimiter': rng.choice([',', ',', ';', '--', ' and ', '|'])}
    return table, lists, cfg


def build(table, lists, cfg, use_tuple_expect=False, own_answers=False):
    from mitxgraders import SingleListGrader
    # (own_answers: the item grader is a complete grader elsewhere in the course; inside the list it grades against the list's items)
    sub = lib.TableGrader(table=table, ids=False, **({'answers': ('zz', {'expect': 'a', 'grade_decimal': 0.5})} if own_answers else {}))
    if use_tuple_expect and len(lists) > 1 and len(set((l['credit'], l['msg']) for l in lists)) == 1:
        answers = {'expect': tuple(l['items'] for l in lists), 'grade_decimal': lists[0]['credit'], 'msg': lists[0]['msg']}
    else:
        answers = tuple({'expect': l['items'], 'grade_decimal': l['credit'], 'msg': l['msg']} for l in lists)
    return SingleListGrader(answers=answers, subgrader=sub, **cfg)


def model(table, lists, cfg, items):
    """-> ('error', 'MissingInput') | ('grade', g, acceptable message set)."""
    n = len(lists[0]['items'])
    k = len(items)
    if cfg['length_error'] and k != n:
        return ('error', 'MissingInput', 'length')
    if cfg['missing_error'] and any(s.strip() == '' for s in items):
        return ('error', 'MissingInput', 'blank')
    results = []
    for l in lists:
        C = [[item_credit(table, l['alts'][i], items[j]) for j in range(k)] for i in range(n)]
        frac, awarded = listmodel.single_list_credit(C, n, k, cfg['ordered'], cfg['partial_credit'])
        msgs = set()
        for a in awarded:
            msgs.add(l['msg'] if (a and l['msg']) else '')
        # sums of dyadic credits are exact in any order: only then is an equal total an equal float in the library too
        dyadic = all(float(x * 8).is_integer() for row in C for x in row)
        results.append((l['credit'] * frac, msgs, dyadic))
    best = max(r[0] for r in results)
    near = [r for r in results if abs(r[0] - best) <= 1e-9]
    if all(r[0] == best for r in near) and (len(near) == 1 or all(r[2] for r in near)):
        # an exact tie: the longest message among the best-scoring alternatives is reported (R5)
        floor = max(min(len(m) for m in r[1]) for r in near)
        acceptable = set(m for r in near for m in r[1] if len(m) >= floor)
    else:
        # grades that differ only by rounding (2.1/3 vs 0.7, or 1+1+1/3 vs 1/3+1+1 summed in another order): which one
        # is the maximum is decided by the last bit, so the message of any of them may be reported
        acceptable = set(m for r in near for m in r[1])
    return ('grade', best, acceptable)


def expected_ok(g):
    return True if g == 1 else (False if g == 0 else 'partial')


def judge(ctx, key, out, exp, wit):
    wit = dict(wit, expected=exp if exp[0] == 'error' else [exp[0], exp[1], sorted(exp[2])], outcome=out.brief())
    ctx.count('calls')
    if exp[0] == 'error':
        ctx.count('error_expected')
        if out.returned:
            ctx.violation(key + ':error_expected:' + exp[2], 'expected a MissingInput error (%s), got %r' % (exp[2], out.value), wit)
        elif type(out.exc).__name__ != exp[1]:
            ctx.violation(key + ':error_class:' + exp[2], 'expected %s, got %r' % (exp[1], out.exc), wit)
        return
    ctx.count('graded_calls')
    if not out.returned:
        ctx.violation(key + ':raises', 'model grade %r but raised %r' % (exp[1], out.exc), wit)
        return
    r = out.value
    if set(r) != {'ok', 'grade_decimal', 'msg'}:
        ctx.violation(key + ':result_form', repr(r), wit)
        return
    if abs(r['grade_decimal'] - exp[1]) > 1e-9:
        ctx.violation(key + ':grade', 'grade %r, documented formula gives %r' % (r['grade_decimal'], exp[1]), wit)
        return
    if r['ok'] != expected_ok(r['grade_decimal']):
        ctx.violation(key + ':ok', 'grade %r with ok=%r' % (r['grade_decimal'], r['ok']), wit)
    msg = lib.strip_debug(r['msg'])
    if msg not in exp[2]:
        ctx.violation(key + ':message', 'message %r, acceptable %r' % (msg, sorted(exp[2])), wit)
    if any(exp[2]) and '' not in exp[2]:
        ctx.count('message_expected')


def run_main(ctx):
    rng = ctx.rng
    for i in range(ctx.n(6400, 600000)):
        table, lists, cfg = make_case(rng)
        n = len(lists[0]['items'])
        if i % 9 == 4:
            cfg['debug'] = True       # the log is appended to the message; grade, ok and the message proper are unchanged
            ctx.count('debug_cases')
        g = build(table, lists, cfg, use_tuple_expect=(i % 3 == 0), own_answers=(i % 4 == 1))
        if i % 4 == 1:
            ctx.count('item_grader_with_own_answers')
        # submission: derived from a target list (permuted / truncated / extended / corrupted) or random
        base = [alts[0][0] for alts in rng.choice(lists)['alts']]
        kind = rng.choice(['exact', 'perm', 'short', 'long', 'corrupt', 'random', 'blank', 'alt'])
        items = list(base)
        if kind == 'perm':
            rng.shuffle(items)
        elif kind == 'short' and n > 1:
            items = items[:rng.randint(1, n - 1)]
        elif kind == 'long':
            items = items + [rng.choice(ALPHA + ['zz']) for _ in range(rng.randint(1, 2))]
            rng.shuffle(items)
        elif kind == 'corrupt':
            items[rng.randrange(len(items))] = rng.choice(ALPHA + ['zz'])
        elif kind == 'random':
            items = [rng.choice(ALPHA + ['zz']) for _ in range(rng.randint(1, 7))]
        elif kind == 'blank':
            items[rng.randrange(len(items))] = rng.choice(['', ' ', '  ', '\t', '\n', ' \r\n', u'\xa0', u'\u3000', ' \t '])     # blank = nothing but whitespace of any kind
        elif kind == 'alt':
            l = rng.choice(lists)
            items = [rng.choice(alts)[0] for alts in l['alts']]
        k = len(items)
        pad = lambda s: rng.choice(['', ' ', '  ']) + s + rng.choice(['', ' '])
        sub = cfg['delimiter'].join(pad(s) if s.strip() else s for s in items)
        exp = model(table, lists, cfg, items)
        out = lib.call(ctx, g, None, sub)
        ctx.ev()
        wit = {'config': cfg, 'lists': [{'items': l['items'], 'credit': l['credit'], 'msg': l['msg']} for l in lists],
               'table': sorted([[e, s, c] for (e, s), c in table.items() if c and (e in ''.join(str(x) for l in lists for x in l['items']))])[:40],
               'submission': sub, 'kind': kind}
        key = 'C07:%s%s' % ('ordered' if cfg['ordered'] else 'unordered', '' if cfg['partial_credit'] else ':no_partial')
        judge(ctx, key, out, exp, wit)
        if k > n:
            ctx.count('surplus_cases')
        if k < n:
            ctx.count('missing_cases')
        if len(lists) > 1:
            ctx.count('multi_alternative_cases')
        if not cfg['partial_credit']:
            ctx.count('partial_credit_false_cases')
        if exp[0] == 'error' or k != n or (exp[0] == 'grade' and 0 < exp[1] < 1):
            ctx.nontrivial(wit)
        if i < 3:
            ctx.sample(dict(wit, model=exp if exp[0] == 'error' else [exp[0], exp[1], sorted(exp[2])]))
        # permutation invariance for unordered graders
        if not cfg['ordered'] and exp[0] == 'grade' and 2 <= k <= 5 and i % 8 == 0 and out.returned:
            ctx.count('permutation_sets')
            for perm in itertools.permutations(items):
                o2 = lib.call(ctx, g, None, cfg['delimiter'].join(perm))
                ctx.ev()
                if not o2.returned or abs(o2.value['grade_decimal'] - out.value['grade_decimal']) > 1e-9:
                    ctx.violation('C07:unordered:permutation_dependent',
                                  'submission %r graded %r but permutation %r graded %r' % (items, out.value['grade_decimal'], list(perm), o2.brief()),
                                  dict(wit, permutation=list(perm)))
                    break


def run_dense(ctx):
    """Unordered lists of 4-6 expected and 4-7 submitted items with DENSE fractional item credits: the assignment must be an
    optimal one (rare solver faults only show on such tables)."""
    from mitxgraders import SingleListGrader
    rng = ctx.rng
    for i in range(ctx.n(16000, 300000)):
        n = rng.randint(4, 6)
        k = rng.randint(4, 7)
        exp_items = ['e%d' % a for a in range(n)]
        sub_items = ['s%d' % b for b in range(k)]
        pal = rng.choice([[0, 0.25, 0.5, 0.75, 1], [0, 0.5, 1], [0.1 * q for q in range(11)], [0.5, 0.504, 0.496, 0.508, 0.512, 0.492]])
        table = {(e, s_): rng.choice(pal) for e in exp_items for s_ in sub_items}
        g = SingleListGrader(answers=exp_items, subgrader=lib.TableGrader(table=table, ids=False), ordered=False)
        out = lib.call(ctx, g, None, ', '.join(sub_items))
        ctx.ev()
        ctx.count('calls')
        ctx.count('dense_table_calls')
        C = [[table[(e, s_)] for s_ in sub_items] for e in exp_items]
        frac, _ = listmodel.single_list_credit(C, n, k, False, True)
        if i % 40 == 0:
            ctx.nontrivial(['dense', C])
        if not out.returned:
            ctx.violation('C07:unordered:raises', repr(out.exc), {'credits': C})
        elif abs(out.value['grade_decimal'] - frac) > 1e-9:
            ctx.violation('C07:unordered:grade', 'grade %r, documented formula gives %r' % (out.value['grade_decimal'], frac),
                          {'credits_expected_by_submitted': C, 'outcome': out.brief()})


def run_delimiters(ctx):
    """The delimiter is the author's string, character for character (blanks at its ends included): items may contain parts of it."""
    from mitxgraders import SingleListGrader, StringGrader
    rng = ctx.rng
    table = [(', ', ['f(1,2)', 'g(3,4)', 'h']), (' - ', ['a-b', 'c-d', 'e']), (' | ', ['x|y', 'z']), (' and ', ['sand', 'band', 'hand']),
             ('; ', ['p;q', 'r']), (',  ', ['a, b', 'c'])]
    for i in range(ctx.n(640, 8000)):
        delim, items = rng.choice(table)
        ordered = rng.random() < 0.5
        form = rng.choice(['list', 'string', 'inferred'])
        if form == 'list':
            g, expect = SingleListGrader(answers=list(items), subgrader=StringGrader(), delimiter=delim, ordered=ordered), None
        elif form == 'string':
            g, expect = SingleListGrader(answers=delim.join(items), subgrader=StringGrader(), delimiter=delim, ordered=ordered), None
        else:
            g, expect = SingleListGrader(subgrader=StringGrader(), delimiter=delim, ordered=ordered), delim.join(items)
        sub_items = list(items)
        kind = rng.choice(['same', 'perm', 'drop'])
        if kind == 'perm':
            rng.shuffle(sub_items)
        elif kind == 'drop' and len(sub_items) > 1:
            sub_items.pop()
        n, k = len(items), len(sub_items)
        if ordered:
            hits = sum(1 for a, b in zip(items, sub_items) if a == b)
        else:
            hits = len(set(items) & set(sub_items))
        want = max(0.0, (hits - max(0, k - n)) / float(n))
        out = lib.call(ctx, g, expect, delim.join(sub_items))
        ctx.ev()
        ctx.count('calls')
        ctx.count('delimiter_cases')
        wit = {'delimiter': delim, 'items': items, 'answers_given_as': form, 'submission': delim.join(sub_items), 'ordered': ordered, 'outcome': out.brief()}
        ctx.nontrivial(['delim', delim, form, kind, ordered])
        if not out.returned:
            ctx.violation('C07:delimiter:raises', repr(out.exc), wit)
        elif abs(out.value['grade_decimal'] - want) > 1e-9:
            ctx.violation('C07:delimiter:grade', 'grade %r, splitting at the configured delimiter gives %r' % (out.value['grade_decimal'], want), wit)


def run_forms(ctx):
    """String-form answers, inferred expect, nesting."""
    from mitxgraders import SingleListGrader, StringGrader
    rng = ctx.rng
    ident = {(e, e): 1 for e in ALPHA}
    for i in range(ctx.n(3200, 160000)):
        n = rng.randint(1, 5)
        base = rng.sample(ALPHA, n)
        cfg = {'ordered': rng.random() < 0.5, 'partial_credit': rng.random() < 0.7, 'length_error': False,
               'missing_error': rng.random() < 0.5, 'delimiter': rng.choice([',', ';', '--'])}
        items = list(base)
        op = rng.choice(['perm', 'drop', 'add', 'swap', 'same'])
        if op == 'perm':
            rng.shuffle(items)
        elif op == 'drop' and n > 1:
            items.pop(rng.randrange(n))
        elif op == 'add':
            items.append(rng.choice(ALPHA + ['zz']))
        elif op == 'swap':
            items[rng.randrange(len(items))] = 'zz'
        sub = (cfg['delimiter'] + rng.choice(['', ' '])).join(items)
        lists = [{'items': base, 'alts': [[(e, 1.0)] for e in base], 'credit': 1, 'msg': ''}]
        exp = model(ident, lists, cfg, items)
        form = i % 3
        wit = {'config': cfg, 'answer': base, 'submission': sub}
        if form == 0:
            # answers given as one delimited string
            g = SingleListGrader(answers=(cfg['delimiter'] + ' ').join(base), subgrader=lib.TableGrader(table=ident, ids=False), **cfg)
            judge(ctx, 'C07:string_form_answers', lib.call(ctx, g, None, sub), exp, dict(wit, form='string answers'))
        elif form == 1:
            # answers inferred from expect at call time
            g = SingleListGrader(subgrader=StringGrader(), **cfg)
            ctx.count('inferred_cases')
            judge(ctx, 'C07:inferred_expect', lib.call(ctx, g, (cfg['delimiter'] + ' ').join(base), sub), exp, dict(wit, form='inferred expect'))
        else:
            # one level of nesting: groups separated by '/', items by the inner delimiter
            if cfg['delimiter'] == ';':
                continue
            m = rng.randint(1, 3)
            same_size = rng.random() < 0.5
            size = rng.randint(1, 3)
            groups = [rng.sample(ALPHA, size if same_size else rng.randint(1, 3)) for _ in range(m)]
            inner_cfg = {'ordered': rng.random() < 0.5, 'partial_credit': True, 'length_error': same_size and rng.random() < 0.4,
                         'missing_error': rng.random() < 0.4, 'delimiter': cfg['delimiter']}
            outer_cfg = dict(cfg, delimiter='/', missing_error=False)
            inner = SingleListGrader(subgrader=lib.TableGrader(table=ident, ids=False), **inner_cfg)
            with_msg = rng.random() < 0.5
            answers = {'expect': [list(gr) for gr in groups], 'msg': 'NESTMSG'} if with_msg else [list(gr) for gr in groups]
            g = SingleListGrader(answers=answers, subgrader=inner, **outer_cfg)
            sgroups = [list(gr) for gr in groups]
            op2 = rng.choice(['same', 'permute_groups', 'permute_inner', 'drop_item', 'extra_group', 'wrong_item', 'blank_item', 'drop_group'])
            if op2 == 'permute_groups':
                rng.shuffle(sgroups)
            elif op2 == 'permute_inner':
                for gr in sgroups:
                    rng.shuffle(gr)
            elif op2 == 'drop_item':
                gr = sgroups[0]
                if len(gr) > 1:
                    gr.pop()
            elif op2 == 'extra_group':
                sgroups.append([rng.choice(ALPHA)])
            elif op2 == 'wrong_item':
                rng.choice(sgroups)[0] = 'zz'
            elif op2 == 'blank_item':
                if len(sgroups[0]) > 1:
                    sgroups[0][rng.randrange(len(sgroups[0]))] = rng.choice(['', ' '])
            elif op2 == 'drop_group' and len(sgroups) > 1:
                sgroups.pop()
            sub2 = '/'.join(inner_cfg['delimiter'].join(gr) for gr in sgroups)
            # which (answer group, submitted group) pairs does the outer grader hand to the inner one?
            ng, ns = len(groups), len(sgroups)
            if outer_cfg['ordered']:
                pairs = [(k2, k2) for k2 in range(min(ng, ns))]
            else:
                pairs = [(a_, b_) for a_ in range(ng) for b_ in range(ns)]
            # model: outer credit matrix from inner model results; an inner refusal (blank item / wrong count) refuses the whole
            C = [[0.0] * ns for _ in range(ng)]
            A = [[set([False])] * ns for _ in range(ng)]
            inner_error = None
            for a_, b_ in pairs:
                eg, sg = groups[a_], sgroups[b_]
                il = [{'items': eg, 'alts': [[(e, 1.0)] for e in eg], 'credit': 1, 'msg': ''}]
                r_ = model(ident, il, inner_cfg, sg)
                if r_[0] == 'error':
                    inner_error = r_
                    break
                C[a_][b_] = r_[1]
                Cin = [[item_credit(ident, [(e, 1.0)], x) for x in sg] for e in eg]
                A[a_][b_] = listmodel.single_list_credit(Cin, len(eg), len(sg), inner_cfg['ordered'], True)[1]
            out = lib.call(ctx, g, None, sub2)
            ctx.ev()
            ctx.count('nested_cases')
            ctx.count('calls')
            w2 = {'outer': outer_cfg, 'inner': inner_cfg, 'answer_groups': groups, 'answer_level_msg': with_msg, 'submission': sub2, 'op': op2,
                  'outcome': out.brief()}
            ctx.nontrivial(w2)
            if outer_cfg['length_error'] and ns != ng:
                inner_error = ('error', 'MissingInput', 'length')
            if inner_error is not None:
                ctx.count('nested_error_expected')
                if out.returned or type(out.exc).__name__ != 'MissingInput':
                    ctx.violation('C07:nested:error_expected:' + inner_error[2], 'an inner list must be refused (%s), got %r' % (inner_error[2], out.brief()), w2)
                continue
            frac, _ = listmodel.single_list_credit(C, ng, ns, outer_cfg['ordered'], outer_cfg['partial_credit'])
            if not out.returned:
                ctx.violation('C07:nested:raises', repr(out.exc), w2)
            elif abs(out.value['grade_decimal'] - frac) > 1e-9:
                ctx.violation('C07:nested:grade', 'grade %r, model %r' % (out.value['grade_decimal'], frac), w2)
            elif with_msg:
                # the answer-level message is deserved only when every expected group is matched by a submitted group in which
                # every item earned credit (no group or item missing or surplus)
                if outer_cfg['ordered']:
                    assigns = [tuple(range(min(ng, ns))) + (None,) * (ns - min(ng, ns))]
                else:
                    assigns = listmodel.best_assignments(C, ng, ns)[1]
                possible = set()
                for a_ in assigns:
                    if ns != ng:
                        possible.add('')
                        continue
                    flags = [A[a_[j]][j] for j in range(ns)]
                    if all(True in f for f in flags):
                        possible.add('NESTMSG')
                    if any(False in f for f in flags):
                        possible.add('')
                ctx.count('nested_message_checks')
                if out.value['msg'] not in possible:
                    ctx.violation('C07:nested:message', 'message %r, the model allows %r' % (out.value['msg'], sorted(possible)), w2)
        ctx.ev()


def run(ctx):
    run_dense(ctx)
    run_delimiters(ctx)
    run_main(ctx)
    run_forms(ctx)
