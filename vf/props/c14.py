"""
C14 -- array arithmetic follows strict linear-algebra shape rules and values.

Oracle: the documented rule table over the shape lattice (rule()), values computed with numpy on
*plain* ndarrays / Python numbers.  Monitor: every MathArray operator call (binary, reflected,
in-place), every formula-string evaluation with array literals / array variables, and
MatrixGrader verdicts with negative_powers=False are compared with the table; operands are
fingerprinted before and after.
"""
import itertools
import operator

import numpy as np

from vf import lib

RULE = ('all ordered operand pairs from {scalars (int, float, complex, zero), vectors of length '
        '2-4, m x n matrices 1<=m,n<=4 with >1 element, 3-axis tensors} x {+,-,*,/,^} x real / '
        'complex entries x exponents {ints -3..4, integer-valued floats, non-integers, complex} x '
        'singular / regular matrices; through MathArray operators (plain, reflected, in-place), '
        'through formula strings (array literals and array variables, triple vector products) and '
        'through MatrixGrader(negative_powers=False). Non-trivial = at least one array operand; '
        'distinct by (route, op, shapes, dtype class, exponent class).')
ASSUMPTIONS = ['R8: one-element results may be a number or a one-element array',
               'at the raw operator level ZeroDivisionError/OverflowError count as errors (the '
               'evaluator recasts them); through formula strings the error must be student-facing',
               'scalars are Python numbers; numpy scalars appear only as results of MathArray '
               'operations fed back into the next operation (chained use)']

OPS = {'+': operator.add, '-': operator.sub, '*': operator.mul, '/': operator.truediv, '^': operator.pow}
IOPS = {'+': operator.iadd, '-': operator.isub, '*': operator.imul, '/': operator.itruediv, '^': operator.ipow}


def gates(tier):
    return {'raw_ops': 8000, 'raw_value_outcomes': 1500, 'raw_error_outcomes': 3000,
            'string_evals': 3000, 'string_error_outcomes': 800, 'triple_products': 100,
            'negpow_disabled_calls': 100, 'identity_dim_calls': 400, 'inplace_ops': 1500, 'reflected_ops': 1500, 'division_chain_checks': 500, 'exact_scalar_divisions': 60, 'negpow_disabled_calls_with_suppressed_messages': 40}


def is_scalar(x):
    return not isinstance(x, np.ndarray)


def int_like(b):
    return (isinstance(b, int) and not isinstance(b, bool)) or (isinstance(b, float) and b.is_integer())


def rule(op, a, b, negpow=True):
    """('value', v) | ('error', why) for plain operands (numbers / ndarrays)."""
    sa, sb = is_scalar(a), is_scalar(b)
    if op in '+-':
        sign = 1 if op == '+' else -1
        if sa and sb:
            return 'value', a + sign * b
        if sa != sb:
            s = a if sa else b
            if s == 0:
                return 'value', (a + sign * b)
            return 'error', 'nonzero scalar with array'
        if a.shape == b.shape:
            return 'value', a + sign * b
        return 'error', 'different shapes'
    if op == '*':
        if sa or sb:
            return 'value', a * b
        if a.ndim > 2 or b.ndim > 2:
            return 'error', 'tensor product'
        ok = (a.shape[-1] == b.shape[0])
        if not ok:
            return 'error', 'incompatible shapes'
        return 'value', np.dot(a, b)
    if op == '/':
        if not sb:
            return 'error', 'division by array'
        if b == 0:
            return 'error', 'zero division'
        return 'value', a / b
    if op == '^':
        if not sb:
            return 'error', 'array exponent'
        if sa:
            try:
                return 'value', a ** b
            except (ZeroDivisionError, OverflowError):
                return 'error', 'arith'
        if a.ndim != 2 or a.shape[0] != a.shape[1]:
            return 'error', 'not a square matrix'
        if isinstance(b, complex) or not int_like(b):
            return 'error', 'non-integer exponent'
        if b < 0 and not negpow:
            return 'error', 'negative powers disabled'
        try:
            return 'value', np.linalg.matrix_power(a, int(b))
        except np.linalg.LinAlgError:
            return 'error', 'singular'
    raise ValueError(op)


def same_value(got, want):
    """R8-aware value comparison: shape and entries (relative 1e-9)."""
    with np.errstate(all='ignore'):
        g, w = np.asarray(got), np.asarray(want)
        if g.size == 1 and w.size == 1:
            g, w = g.reshape(()), w.reshape(())
        if g.shape != w.shape:
            return False
        scale = max(1.0, float(np.max(np.abs(w))) if w.size else 1.0)
        return bool(np.all(np.abs(g - w) <= 1e-9 * scale))


def classify(x):
    if is_scalar(x):
        z = 'zero' if x == 0 else 'nz'
        return 'scalar:%s:%s' % (type(x).__name__, z)
    return {1: 'vector', 2: 'matrix'}.get(x.ndim, 'tensor') + str(tuple(x.shape)) + (':c' if np.iscomplexobj(x) else ':r')


def operands(rng):
    """Pool of plain operands covering the lattice."""
    pool = []
    # (tiny non-zero scalars are not the scalar zero: the 'adding zero is allowed' exemption is exact)
    for s in (0, 0.0, 0j, 2, -3, 1.5, -0.25, 2 + 1j, 1j, 1, 3.0, 1e-15, 0.1 + 0.2 - 0.3, -1e-300, 1e-20j, 1e-200):
        pool.append(s)
    for n in (2, 3, 4):
        pool.append(np.array([rng.choice([-2., -1., 0.5, 1., 2., 3.]) for _ in range(n)]))
        pool.append(np.array([complex(rng.choice([-1., 1., 2.]), rng.choice([-1., 0.5, 2.])) for _ in range(n)]))
    for m in (1, 2, 3, 4):
        for n in (1, 2, 3, 4):
            if m * n == 1:
                continue
            pool.append(np.array([[float(rng.randint(-3, 3)) + (0.5 if (i + j) % 2 else 0) for j in range(n)] for i in range(m)]))
    # square: regular, singular, complex, identity-like
    pool.append(np.array([[2., 1.], [1., 1.]]))
    pool.append(np.array([[1., 2.], [2., 4.]]))                      # singular
    pool.append(np.array([[1., 2., 3.], [4., 5., 6.], [7., 8., 9.]]))  # singular
    pool.append(np.array([[2., 0., 1.], [1., 3., 0.], [0., 1., 4.]]))
    pool.append(np.array([[1 + 1j, 2.], [0.5j, 1.]]))
    pool.append(np.zeros((2, 2)))
    pool.append(np.zeros(3))
    # entries whose products / quotients underflow (quietly, to zero or a denormal): still ordinary values
    pool.append(np.array([1e-200, 1.0, -1e-250]))
    pool.append(np.array([[1e-200, 0.], [2.0, 1e-180]]))
    for shp in ((2, 2, 2), (2, 3, 2), (3, 3, 3), (1, 2, 2)):
        pool.append(np.arange(1., 1. + np.prod(shp)).reshape(shp))
    return pool


EXPONENTS = [-3, -2, -1, 0, 1, 2, 3, 4, 2.0, -1.0, 0.0, 3.0, 0.5, -1.5, 2.000001, 1j, 2 + 0j, 1 + 1j,
             0.3 / 0.1, 0.29 * 100, 3.0000000001, 1.9999999999, -(0.3 / 0.1), 1e-12]
# one-element arrays are treated as numbers by the library (R8): the negative-power switch must still apply to them
ONE_ELEMENT_EXPONENTS = [np.array(-1), np.array([-2]), np.array([[-1.0]]), np.array([2]), np.array(3.0)]


def to_lib(x):
    from mitxgraders.helpers.calc import MathArray
    return MathArray(x.copy()) if isinstance(x, np.ndarray) else x


def student_facing(exc):
    from mitxgraders.exceptions import StudentFacingError
    return isinstance(exc, StudentFacingError)


def judge(ctx, route, op, a, b, out, la, lb, la0, lb0, negpow=True, raw=True, extra=None):
    """Compare one outcome with the table."""
    with np.errstate(all='ignore'):      # the oracle's own numpy arithmetic must not depend on the library's process-wide error state
        exp = rule(op, a, b, negpow)
    ca, cb = classify(a), classify(b)
    wit = {'route': route, 'op': op, 'a': a, 'b': b, 'classes': [ca, cb], 'expected': exp[0],
           'why': exp[1] if exp[0] == 'error' else None, 'outcome': out.brief()}
    if extra:
        wit.update(extra)
    shapekey = '%s%s%s' % (ca.split(':')[0].split('(')[0], op, cb.split(':')[0].split('(')[0])
    if out.kind == 'hang':
        ctx.violation('C14:%s:hang' % route, 'did not terminate', wit)
        return
    # operands untouched
    for nm, cur, orig in (('a', la, la0), ('b', lb, lb0)):
        if isinstance(orig, np.ndarray) and not (cur.shape == orig.shape and np.array_equal(np.asarray(cur), orig)):
            ctx.violation('C14:%s:operand_modified' % route, 'operand %s changed from %r to %r' % (nm, orig, cur), wit)
    if exp[0] == 'error':
        ctx.count('raw_error_outcomes' if raw else 'string_error_outcomes')
        if out.returned:
            ctx.violation('C14:%s:value_where_error:%s:%s' % (route, shapekey, exp[1].replace(' ', '_')),
                          'table says error (%s) but got %r' % (exp[1], out.value), wit)
        elif not student_facing(out.exc):
            if raw and isinstance(out.exc, (ZeroDivisionError, OverflowError)) and exp[1] in ('zero division', 'arith'):
                ctx.count('raw_arith_errors_recast_upstream')
            else:
                ctx.violation('C14:%s:foreign_error:%s:%s' % (route, shapekey, type(out.exc).__name__),
                              'error is not student-facing: %r' % (out.exc,), wit)
        return
    ctx.count('raw_value_outcomes' if raw else 'string_value_outcomes')
    if not out.returned:
        ctx.violation('C14:%s:error_where_value:%s' % (route, shapekey),
                      'table gives %r but raised %r' % (exp[1], out.exc), wit)
        return
    got = out.value
    if not same_value(got, exp[1]):
        ctx.violation('C14:%s:wrong_value:%s' % (route, shapekey), 'got %r, linear algebra gives %r' % (got, exp[1]), wit)
        return
    from mitxgraders.helpers.calc import MathArray
    if isinstance(got, np.ndarray) and not isinstance(got, MathArray) and np.ndim(got) > 0:
        ctx.violation('C14:%s:plain_ndarray_result:%s' % (route, shapekey), 'result is %s' % type(got).__name__, wit)
    # chained use: a scalar result must behave as a scalar in the next operation
    if raw and np.ndim(got) == 0 and not is_scalar(a) and not is_scalar(b) and op == '*':
        probe = to_lib(np.array([1., 2., 3.]))
        nxt = lib.call(ctx, operator.add, got, probe)
        ctx.count('chained_scalar_probes')
        if nxt.returned and abs(complex(np.asarray(got).item())) > 0:
            ctx.violation('C14:raw:chained_dot_result_broadcasts',
                          '(v*w) + u returned %r: the product %r (%s) is silently broadcast over an array'
                          % (nxt.value, got, type(got).__name__), wit)


def run_raw(ctx):
    rng = ctx.rng
    pool = operands(rng)
    pairs = list(itertools.product(range(len(pool)), repeat=2))
    n = 0
    for idx, (i, j) in enumerate(pairs):
        if not ctx.mine(idx):
            continue
        a, b = pool[i], pool[j]
        if is_scalar(a) and is_scalar(b):
            continue
        for op in '+-*/^':
            for form in ('binary', 'inplace'):
                la, lb = to_lib(a), to_lib(b)
                la0 = a.copy() if isinstance(a, np.ndarray) else a
                lb0 = b.copy() if isinstance(b, np.ndarray) else b
                if form == 'binary':
                    out = lib.call(ctx, OPS[op], la, lb)
                    if is_scalar(a):
                        ctx.count('reflected_ops')
                else:
                    if is_scalar(a):
                        continue
                    holder = la
                    out = lib.call(ctx, IOPS[op], holder, lb)
                    ctx.count('inplace_ops')
                ctx.ev()
                ctx.count('raw_ops')
                n += 1
                judge(ctx, 'raw' if form == 'binary' else 'raw_inplace', op, a, b, out, la, lb, la0, lb0)
                ctx.nontrivial(['raw', form, op, classify(a), classify(b)])
    # exponents
    mats = [p for p in pool if isinstance(p, np.ndarray)]
    for idx, (m, e) in enumerate(itertools.product(range(len(mats)), EXPONENTS)):
        if not ctx.mine(idx):
            continue
        a = mats[m]
        for negpow in (True, False):
            from mitxgraders.helpers.calc import MathArray
            la = to_lib(a)
            la0 = a.copy()

            def do():
                with MathArray.enable_negative_powers(negpow):
                    return la ** e
            out = lib.call(ctx, do)
            ctx.ev()
            ctx.count('raw_ops')
            ctx.count('power_ops')
            judge(ctx, 'raw_pow', '^', a, e, out, la, e, la0, e, negpow=negpow)
            if MathArray._negative_powers is not True:
                ctx.violation('C14:negpow_flag_not_restored', 'flag is %r after the with block' % MathArray._negative_powers,
                              {'a': a, 'e': e})
                MathArray._negative_powers = True
            ctx.nontrivial(['pow', classify(a), repr(e), negpow])
        # reflected power  e ^ A
        la = to_lib(a)
        out = lib.call(ctx, operator.pow, e, la)
        ctx.ev()
        ctx.count('raw_ops')
        ctx.count('reflected_ops')
        judge(ctx, 'raw_rpow', '^', e, a, out, e, la, e, a.copy())
    # one-element array exponents (square matrices only): same verdict as the number they carry
    from mitxgraders.helpers.calc import MathArray
    squares = [p for p in pool if isinstance(p, np.ndarray) and p.ndim == 2 and p.shape[0] == p.shape[1]]
    for idx, (a, ea) in enumerate(itertools.product(squares, ONE_ELEMENT_EXPONENTS)):
        if not ctx.mine(idx):
            continue
        e = float(ea.reshape(-1)[0])
        for negpow in (True, False):
            la, le = to_lib(a), MathArray(ea.copy())

            def do():
                with MathArray.enable_negative_powers(negpow):
                    return la ** le
            out = lib.call(ctx, do)
            ctx.ev()
            ctx.count('raw_ops')
            ctx.count('one_element_exponent_ops')
            judge(ctx, 'raw_pow_one_element_exponent', '^', a, e, out, la, e, a.copy(), e, negpow=negpow,
                  extra={'exponent_object': 'MathArray%r' % (ea.tolist(),)})
    ctx.subspace('operand pairs x 5 operators x {binary, in-place} (raw route)', n, True)


def lit(x):
    """Formula literal for a plain operand."""
    if isinstance(x, np.ndarray):
        return '[' + ','.join(lit(y) for y in x) + ']'
    if isinstance(x, (complex, np.complexfloating)):
        x = complex(x)
        return '(%r+%r*i)' % (float(x.real), float(x.imag)) if x.imag >= 0 else '(%r-%r*i)' % (float(x.real), float(-x.imag))
    v = float(x)
    return '(%r)' % v if v < 0 else repr(v)


def run_strings(ctx):
    from mitxgraders.helpers.calc import evaluator, DEFAULT_FUNCTIONS, DEFAULT_VARIABLES
    rng = ctx.rng
    pool = operands(rng)
    pairs = list(itertools.product(range(len(pool)), repeat=2))
    for idx, (i, j) in enumerate(pairs):
        if not ctx.mine(idx):
            continue
        a, b = pool[i], pool[j]
        if is_scalar(a) and is_scalar(b):
            continue
        for op in '+-*/^':
            if ctx.quick and rng.random() < 0.5:
                continue
            use_vars = rng.random() < 0.5
            if use_vars:
                variables = dict(DEFAULT_VARIABLES)
                variables.update({'A': to_lib(a), 'B': to_lib(b)})
                s = 'A%sB' % op
                r_ = rng.random()
                if r_ < 0.35:
                    # scalar operands carried as numpy scalar types (what numpy functions and samplers hand back)
                    for nm_, val_ in (('A', a), ('B', b)):
                        if is_scalar(val_):
                            variables[nm_] = {int: np.int64, float: np.float64, complex: np.complex128}[type(val_)](val_)
                            ctx.count('numpy_scalar_operands')
                elif r_ < 0.7 and op != '^':
                    # ... or produced by a function call inside the string
                    s = '%s%s%s' % ('(A+sin(0))' if is_scalar(a) else 'A', op, '(B+sin(0))' if is_scalar(b) else 'B')
                    ctx.count('numpy_scalar_operands')
            else:
                variables = dict(DEFAULT_VARIABLES)
                s = '%s%s%s' % (lit(a), op, lit(b))
            la, lb = variables.get('A', a), variables.get('B', b)
            out = lib.call(ctx, lambda: evaluator(s, variables, DEFAULT_FUNCTIONS, {'%': 0.01})[0])
            ctx.ev()
            ctx.count('string_evals')
            judge(ctx, 'string', op, a, b, out, la if use_vars else a, lb if use_vars else b,
                  a.copy() if isinstance(a, np.ndarray) else a, b.copy() if isinstance(b, np.ndarray) else b,
                  raw=False, extra={'string': s})
            ctx.nontrivial(['str', use_vars, op, classify(a), classify(b)])
    # exponents through strings
    mats = [p for p in pool if isinstance(p, np.ndarray) and p.ndim <= 2]
    for idx, (m, e) in enumerate(itertools.product(range(len(mats)), EXPONENTS)):
        if not ctx.mine(idx) or (ctx.quick and rng.random() < 0.5):
            continue
        a = mats[m]
        s = '%s^%s' % (lit(a), lit(e))
        out = lib.call(ctx, lambda: evaluator(s, DEFAULT_VARIABLES, DEFAULT_FUNCTIONS, {'%': 0.01})[0])
        ctx.ev()
        ctx.count('string_evals')
        judge(ctx, 'string_pow', '^', a, e, out, a, e, a.copy(), e, raw=False, extra={'string': s})
    # triple vector products
    vec = [p for p in pool if isinstance(p, np.ndarray) and p.ndim == 1 and p.shape[0] == 3 and not np.iscomplexobj(p)]
    u, v, w = np.array([1., 2., 3.]), np.array([2., -1., 0.5]), np.array([1., -1., 2.])
    variables = dict(DEFAULT_VARIABLES)
    variables.update({'u': to_lib(u), 'v': to_lib(v), 'w': to_lib(w), 'M': to_lib(np.array([[2., 0., 1.], [1., 3., 0.], [0., 1., 4.]]))})
    cases = [
        ('u*v*w', 'error'), ('u*v*w*u', 'error'), ('2*u*v*w', 'error'), ('u*v*w/2', 'error'), ('u*v*2*w', 'error'),
        ('(u*v)*w', np.dot(u, v) * w), ('u*(v*w)', u * np.dot(v, w)), ('u*v*2', np.dot(u, v) * 2),
        ('u*2*v', np.dot(u * 2, v)), ('M*u*v', np.dot(np.dot(variables['M'].view(np.ndarray), u), v)),
        ('u*v*M', np.dot(u, v) * np.asarray(variables['M'])), ('u*v', np.dot(u, v)),
        ('[1,2,3]*[1,1,1]*[2,2,2]', 'error'), ('u*v+w', 'error'), ('u*v*(w*w)', np.dot(u, v) * np.dot(w, w)),
        ('u*v*M*w', 'error'), ('u*M*v*M*w', 'error'), ('u*v*2*M*w', 'error'), ('u*v*M*w*u', 'error'), ('M*u*v*w', 'error'),
        ('u*v*M', np.dot(u, v) * np.asarray(variables['M'])), ('(u*v)*M*w', np.dot(u, v) * np.dot(np.asarray(variables['M']), w)),
        ('u*M*w', np.dot(np.dot(u, np.asarray(variables['M'])), w)),
    ]
    for s, want in cases:
        out = lib.call(ctx, lambda: evaluator(s, variables, DEFAULT_FUNCTIONS, {'%': 0.01})[0])
        ctx.ev()
        ctx.count('triple_products')
        ctx.count('string_evals')
        wit = {'string': s, 'outcome': out.brief()}
        if isinstance(want, str):
            ctx.count('string_error_outcomes')
            if out.returned:
                ctx.violation('C14:string:triple_product_accepted' if '+' not in s else 'C14:string:value_where_error:scalar+vector',
                              '%r returned %r' % (s, out.value), wit)
            elif not student_facing(out.exc):
                ctx.violation('C14:string:triple_product_foreign_error', repr(out.exc), wit)
        else:
            if not out.returned or not same_value(out.value, want):
                ctx.violation('C14:string:vector_product_value', '%r: expected %r, got %r' % (s, want, out.brief()), wit)
        ctx.nontrivial(['triple', s])


def run_grader(ctx):
    """MatrixGrader with negative powers disabled refuses A^-1 but grades A^1."""
    from mitxgraders import MatrixGrader, RealMatrices
    from mitxgraders.helpers.calc import MathArray
    from mitxgraders.helpers.calc.exceptions import MathArrayError
    rng = ctx.rng
    for i in range(ctx.n(800, 40000)):
        negpow = (i % 3 == 0)
        ctx.seed_case('negpow', i)
        extra_vars, extra_sf = [], {}
        if i % 2 == 0:
            # other samplers evaluated inside the grader's negative-power block must not switch the powers back on
            from mitxgraders import DependentSampler
            extra_vars = ['c', 'B']
            extra_sf = {'c': DependentSampler(formula='2+1'), 'B': DependentSampler(formula='A*A')}
        # (with suppress_matrix_messages the refusal is not shown: the submission is graded wrong without a message)
        suppress = rng.random() < 0.3
        g = MatrixGrader(answers='A', variables=['A'] + extra_vars, sample_from=dict({'A': RealMatrices(shape=[2, 2])}, **extra_sf),
                         negative_powers=negpow, max_array_dim=2, **({'suppress_matrix_messages': True} if suppress else {}))
        sub = rng.choice(['(A^-1)^-1', 'A^-1*A*A', 'A^(-1)*A^2', 'A*A^-2*A^2', '[[1,2],[3,4]]^-1*[[1,2],[3,4]]*A',
                          'A^[-1]*A*A', 'A^-[1]*A^2', 'A^[[-1]]*A*A', 'A^(0-1)*A^2', 'A^(-[1]*[1])*A^2'])
        out = lib.call(ctx, g, None, sub)
        ctx.ev()
        wit = {'negative_powers': negpow, 'submission': sub, 'dependent_samplers_configured': bool(extra_vars), 'outcome': out.brief()}
        if negpow:
            ctx.count('negpow_enabled_calls')
            if not out.returned or out.value['ok'] is not True:
                ctx.violation('C14:grader:negative_power_not_inverse', 'expected correct, got %r' % (out.brief(),), wit)
        else:
            ctx.count('negpow_disabled_calls')
            if suppress:
                ctx.count('negpow_disabled_calls_with_suppressed_messages')
                if not out.returned or out.value['ok'] is not False or out.value['msg'] != '':
                    ctx.violation('C14:grader:negative_power_not_refused:suppressed_messages', 'disabled, yet %r' % (out.brief(),),
                                  dict(wit, suppress_matrix_messages=True))
            elif out.returned or not isinstance(out.exc, MathArrayError):
                ctx.violation('C14:grader:negative_power_not_refused', 'disabled, yet %r' % (out.brief(),), wit)
        if MathArray._negative_powers is not True:
            ctx.violation('C14:grader:negpow_flag_leaked', 'class flag is %r after the call' % MathArray._negative_powers, wit)
            MathArray._negative_powers = True
        # raw inverse must work again right after
        chk = lib.call(ctx, lambda: MathArray([[2., 0.], [0., 4.]]) ** -1)
        if not chk.returned:
            ctx.violation('C14:grader:negative_powers_stay_disabled', 'raw inverse after the call: %r' % (chk.brief(),), wit)
        ctx.nontrivial(['grader', negpow, sub])


DIVISION_CHAINS = [
    # string, value or None (= dividing by an array: always an error, wherever in a run of divisions it stands)
    ('u/v/w', None), ('x/v/w', None), ('M*u/v/w', None), ('u/2/v/w', None), ('x/R/C', None), ('u/v/2', None), ('u/2/v', None), ('x/2/v', None),
    ('u/(v*w)/v', None), ('1/v/w', None), ('x/C/R', None), ('u*v/w/v', None), ('x/v/v/v', None), ('u/v/w/2', None), ('x/M/M', None),
    ('u/2/4', [0.125, 0.25, 0.375]), ('x/2/4', 0.75), ('u/(v*w)', [1 / 32., 2 / 32., 3 / 32.]), ('u/(v*w)/2', [1 / 64., 2 / 64., 3 / 64.]),
    ('u*v/(v*w)/2', 14 / 64.), ('x/(R*C)', 6 / 32.), ('u/x/x', [1 / 36., 2 / 36., 3 / 36.]), ('M*u/2/x', [14 / 12., 32 / 12., 50 / 12.]),
]


def run_division_chains(ctx):
    from mitxgraders.helpers.calc import evaluator, DEFAULT_FUNCTIONS, DEFAULT_VARIABLES, MathArray
    from mitxgraders.helpers.calc.exceptions import CalcError
    for rep in range(ctx.pick(2, 6)):
        for s_, want in DIVISION_CHAINS:
            variables = dict(DEFAULT_VARIABLES, x=6.0, u=MathArray([1., 2., 3.]), v=MathArray([1., 2., 3.]), w=MathArray([4., 5., 6.]),
                             R=MathArray([[1., 2., 3.]]), C=MathArray([[4.], [5.], [6.]]), M=MathArray([[1., 2., 3.], [4., 5., 6.], [7., 8., 9.]]))
            for spelled in (s_, s_.replace('/', ' / ')):
                out = lib.call(ctx, lambda: evaluator(spelled, variables, DEFAULT_FUNCTIONS, {}, max_array_dim=2)[0])
                ctx.ev()
                ctx.count('division_chain_checks')
                ctx.nontrivial('divchain:' + spelled)
                wit = {'string': spelled, 'x': 6.0, 'u': [1, 2, 3], 'v': [1, 2, 3], 'w': [4, 5, 6], 'R': '1x3 matrix [[1,2,3]]', 'C': '3x1 matrix [[4],[5],[6]]',
                       'M': '3x3 matrix 1..9', 'expected': want if want is not None else 'error: division by an array', 'outcome': out.brief()}
                if want is None:
                    if out.returned:
                        ctx.violation('C14:strings:division_chain:array_divisor_accepted', '%r returned %r' % (spelled, out.value), wit)
                    elif not isinstance(out.exc, CalcError) and not student_facing(out.exc):
                        ctx.violation('C14:strings:division_chain:foreign_error', repr(out.exc), wit)
                elif not out.returned:
                    ctx.violation('C14:strings:division_chain:valid_refused', repr(out.exc), wit)
                else:
                    with np.errstate(all='ignore'):
                        good = np.shape(out.value) == np.shape(want) and bool(np.allclose(np.asarray(out.value, dtype=complex), np.asarray(want, dtype=complex), rtol=1e-12))
                    if not good:
                        ctx.violation('C14:strings:division_chain:value', '%r = %r, expected %r' % (spelled, out.value, want), wit)


def run_exact_scalar_division(ctx):
    """array / scalar is the elementwise quotient, each entry correctly rounded (IEEE division): no detour through a reciprocal, which
    is off by an ulp for divisors like 3, 10, 49 and overflows for subnormal divisors."""
    from mitxgraders.helpers.calc import evaluator, DEFAULT_FUNCTIONS, DEFAULT_VARIABLES, MathArray
    rng = ctx.rng
    divisors = [3.0, 10.0, 49.0, 7.0, 0.1, 1e-310, 5e-324, 1e300, -3.0, 2.0, 1 / 3., 6, 1e-308]
    for rep in range(ctx.n(120, 2000)):
        shape = rng.choice([(2,), (3,), (2, 2), (2, 3)])
        mag = rng.choice([1.0, 1.0, 1e-300, 1e-305, 1e10])
        vals = np.array([rng.choice([1.0, 2.0, 5.0, 7.0, 49.0, 0.3, -1.7, 123.456]) * mag for _ in range(int(np.prod(shape)))]).reshape(shape)
        b = rng.choice(divisors)
        with np.errstate(all='ignore'):
            want = vals / b
        if not np.all(np.isfinite(want)):
            continue
        a = MathArray(vals.copy())
        via = rng.choice(['truediv', 'itruediv', 'string'])
        if via == 'truediv':
            out = lib.call(ctx, lambda: a / b)
        elif via == 'itruediv':
            def inplace():
                c = MathArray(vals.copy())
                c /= b
                return c
            out = lib.call(ctx, inplace)
        else:
            variables = dict(DEFAULT_VARIABLES, A=a, b=b)
            out = lib.call(ctx, lambda: evaluator('A/b', variables, DEFAULT_FUNCTIONS, {}, max_array_dim=2)[0])
        ctx.ev()
        ctx.count('exact_scalar_divisions')
        ctx.nontrivial(['exactdiv', vals.tolist(), b, via])
        wit = {'array': vals.tolist(), 'divisor': b, 'route': via, 'expected': want.tolist(), 'outcome': out.brief()}
        if not out.returned:
            ctx.violation('C14:scalar_division:raises', repr(out.exc)[:200], wit)
        elif np.shape(out.value) != np.shape(want) or not np.array_equal(np.asarray(out.value), want):
            ctx.violation('C14:scalar_division:value', 'array / %r = %r, the elementwise quotient is %r' % (b, out.value, want.tolist()), wit)


def run_identity(ctx):
    """MatrixGrader(identity_dim=n): the constant I is the n x n identity and obeys the same shape rules."""
    from mitxgraders import MatrixGrader, RealMatrices
    from mitxgraders.helpers.calc.exceptions import MathArrayShapeError
    rng = ctx.rng
    neutral = ['A*I', 'I*A', 'A+I-I', 'A*I^3', 'A+0*I', '2*I*A/2', 'A*I^-1', 'I^0*A', 'A*trans(I)', 'A*det(I)', 'A*trace(I)/{n}', 'I*A*I',
               '(A+I)*(A-I)-A^2+I+A', 'A*norm(I)^2/{n}']
    changed = ['A+I', 'A*2*I', 'A-I', 'I', 'A*trace(I)', 'A+I*1e-3']
    for i in range(ctx.n(640, 30000)):
        n = rng.choice([2, 2, 3, 4])
        ctx.seed_case('identity', i)
        mode = rng.choice(['same', 'same', 'same', 'other_dim', 'absent'])
        dim = {'same': n, 'other_dim': n + rng.choice([1, -1]) if n > 2 else n + 1, 'absent': None}[mode]
        g = MatrixGrader(answers='A', variables=['A'], sample_from={'A': RealMatrices(shape=[n, n])}, identity_dim=dim, max_array_dim=2)
        want_ok = rng.random() < 0.6
        sub = rng.choice(neutral if want_ok else changed).replace('{n}', str(n))
        out = lib.call(ctx, g, None, sub)
        ctx.ev()
        ctx.count('identity_dim_calls')
        wit = {'matrix_size': n, 'identity_dim': dim, 'submission': sub, 'outcome': out.brief()}
        ctx.nontrivial(['identity', n, dim, sub])
        if mode == 'same':
            if not out.returned or (out.value['ok'] is True) != want_ok:
                ctx.violation('C14:identity:' + ('neutral_use_rejected' if want_ok else 'changed_value_accepted'),
                              'I should be the %dx%d identity: %r' % (n, n, out.brief()), wit)
        elif mode == 'absent':
            if out.returned or type(out.exc).__name__ != 'UndefinedVariable':
                ctx.violation('C14:identity:available_without_identity_dim', repr(out.brief()), wit)
        else:
            # an identity of another size: every product / sum with A is a shape error ('I' alone is merely a wrong answer shape)
            if sub == 'I' or any(f in sub for f in ('norm(I)', 'det(I)', 'trace(I)')):
                continue      # I only inside a scalar-valued function: no shape rule involved
            if out.returned or not isinstance(out.exc, MathArrayShapeError):
                ctx.violation('C14:identity:wrong_size_not_refused', 'identity_dim=%r with %dx%d matrices: %r' % (dim, n, n, out.brief()), wit)


def run(ctx):
    # the operand pool is drawn from the shard's generator: thorough repeats the whole lattice with fresh values
    for rep in range(ctx.pick(1, 40)):
        run_raw(ctx)
        run_strings(ctx)
    run_grader(ctx)
    run_division_chains(ctx)
    run_exact_scalar_division(ctx)
    run_identity(ctx)
    lib.repo_tests_under_monitor(ctx, 'C14', ['state'])
    if ctx.shard == 0:
        ctx.sample({'route': 'raw', 'op': '*', 'a': 'vector(3)', 'b': 'matrix(3,2)', 'expected': 'vector(2) = np.dot(a, b)'})
        ctx.sample({'route': 'string', 'string': 'u*v*w', 'expected': 'student-facing error (ambiguous triple product)'})
