"""
C03 -- formula strings evaluate to the value mathematics assigns them.

Monitor: evaluator(string, variables, functions, suffixes)[0] for every generated string is
compared with two independent reference evaluations of the *derivation that produced the
string* (AST evaluator and a hand-written recursive-descent parser over the token list).
Several renderings of one derivation must agree; strings made invalid by construction must be
rejected by the documented error family.
"""
import itertools
import math
import random

import numpy as np

from vf import gen_expr as G
from vf import lib

RULE = ('(1) exhaustive: every operator sequence of length <=3 (quick; <=4 thorough, 1/8 of the '
        'length-4 space in quick) over {+,-,*,/,^,^-,||} with every valid placement of unary '
        'minus, on leaves a..e bound to real and to complex values; (2) random derivations up '
        'to depth 6 over all literal forms, names, constants, n-ary functions, vector/matrix '
        'literals, each in 6 renderings (plain, spaces anywhere, tabs/newlines between tokens, '
        'mixed, redundant parentheses, em-dash); (3) strings made invalid by construction. '
        'Non-trivial = at least two operators and a reference value that differs under at least '
        'one wrong grammar hypothesis (exhaustive part) / depth >= 2 (random part); distinct by string.')
ASSUMPTIONS = ['reference semantics: Python float/complex arithmetic, numpy dot for array products',
               'values compared at 1e-9 relative to the largest intermediate magnitude',
               'R4 of DESIGN.md for the error family of invalid strings',
               'cases where the reference itself is undefined (overflow, 0-division, domain) only '
               'require a student-facing error or are skipped']

VARIANTS = ['par<mul', 'pow_left', 'neg>pow', 'mul_right', 'add_right', 'neg<par']
OPS = ['+', '-', '*', '/', '^', '^-', '||']
LEAVES = ['a', 'b', 'c', 'd', 'e5']
REAL_VALUES = {'a': 1.3, 'b': 2.7, 'c': 0.6, 'd': 1.9, 'e5': 3.1}
COMPLEX_VALUES = {'a': 1.3 + 0.4j, 'b': 0.7 - 1.1j, 'c': 0.6 + 0.9j, 'd': -1.9 + 0.3j, 'e5': 1.1 - 0.7j}


def gates(tier):
    return {'flat_sequences': 5000, 'flat_discriminating': 3000, 'random_derivations': 2000,
            'renderings_checked': 10000, 'invalid_strings': 2000, 'array_derivations': 300,
            'complex_binding_cases': 1000, 'metric_suffix_cases': 100, 'literal_checks': 2500, 'hand_listed_checks': 300, 'values_after_matrix_grader_calls': 250, 'tiny_literals': 300, 'grader_layer_calls': 300, 'overridden_constant_checks': 300, 'inplace_function_checks': 200}


def lib_scope(bindings, metric):
    from mitxgraders.helpers.calc import DEFAULT_FUNCTIONS, DEFAULT_VARIABLES, METRIC_SUFFIXES
    variables = dict(DEFAULT_VARIABLES)
    variables.update(bindings)
    functions = dict(DEFAULT_FUNCTIONS)
    functions.update(G.USER_FUNCTIONS_LIB)
    suffixes = {'%': 0.01}
    if metric:
        suffixes.update(METRIC_SUFFIXES)
    return variables, functions, suffixes


def ref_env(bindings, metric):
    variables = dict(G.CONSTANTS)
    variables.update(bindings)
    functions = dict(G.REF_FUNCTIONS)
    functions.update(G.USER_FUNCTIONS_REF)
    suffixes = dict(G.SUFFIX_VALUES) if metric else {'%': 0.01}
    return variables, functions, suffixes


def evaluate(ctx, s, scope):
    from mitxgraders.helpers.calc import evaluator
    return lib.call(ctx, lambda: evaluator(s, scope[0], scope[1], scope[2])[0])


def ref_tokens(tokens, renv, variant=None):
    env = G.Env(*renv)
    try:
        return 'ok', G.RefParser2(tokens, env, variant).parse(), env.scale
    except G.RefError as e:
        return 'undef', e.kind, env.scale
    except (ZeroDivisionError, OverflowError):
        return 'undef', 'arith', env.scale
    except SyntaxError:
        if variant is None:
            raise
        return 'undef', 'syntax', env.scale   # the wrong grammar does not even accept the string


def compare(ctx, key, s, out, ref, wit):
    """Judge one library outcome against a reference outcome ('ok', value, scale) / ('undef', ..)."""
    from mitxgraders.helpers.calc.exceptions import CalcError
    if out.kind == 'hang':
        ctx.violation(key + ':hang', 'evaluation did not terminate', wit)
        return False
    if ref[0] == 'undef':
        ctx.count('ref_undefined')
        if out.returned:
            v = out.value
            if isinstance(v, float) and v != v:
                ctx.count('nan_where_ref_undefined')
            else:
                ctx.count('value_where_ref_undefined')
        elif not isinstance(out.exc, CalcError):
            ctx.violation(key + ':foreign_exception', 'raised %r' % (out.exc,), wit)
        return False
    if not out.returned:
        ctx.violation(key + ':error_for_valid:' + type(out.exc).__name__,
                      'valid expression raised %r; reference value %r' % (out.exc, ref[1]), wit)
        return False
    got = out.value
    numeric = [w for w in out.warnings if w[0] in ('RuntimeWarning', 'ComplexWarning')]
    if numeric:
        ctx.violation(key + ':warning', 'warnings %r' % (numeric[:2],), wit)
    if isinstance(got, np.ndarray) != isinstance(ref[1], np.ndarray):
        ctx.violation(key + ':type', 'got %r, reference %r' % (got, ref[1]), wit)
        return False
    with np.errstate(all='ignore'):
        is_close = G.close(got, ref[1], ref[2])
    if not is_close:
        ctx.violation(key + ':value', 'got %r, reference %r' % (got, ref[1]), dict(wit, got=got, reference=ref[1]))
        return False
    return True


# ------------------------------------------------------------------ (1) exhaustive flat sequences
def flat_tokens(ops, mask):
    t = []
    for i in range(len(ops) + 1):
        if i > 0:
            op = ops[i - 1]
            if op == '^-':
                t += ['^', '-']
            else:
                t.append(op)
        if mask & (1 << i):
            t.append('-')
        t.append(LEAVES[i])
    return t


def flat_cases(k):
    for ops in itertools.product(OPS, repeat=k):
        free = [0] + [i for i in range(1, k + 1) if not ops[i - 1].startswith('^')]
        for bits in itertools.product((0, 1), repeat=len(free)):
            mask = 0
            for pos, b in zip(free, bits):
                if b:
                    mask |= 1 << pos
            yield ops, mask


def run_flat(ctx):
    rng = ctx.rng
    idx = 0
    counts = {}
    for k in (1, 2, 3, 4):
        n_k = 0
        complete = True
        for ops, mask in flat_cases(k):
            idx += 1
            if not ctx.mine(idx):
                continue
            if k == 4 and ctx.quick and mask and (idx // ctx.nshards) % 8 != ctx.seed % 8:
                complete = False
                continue
            n_k += 1
            tokens = flat_tokens(ops, mask)
            s = ''.join(tokens)
            for cname, vals in (('real', REAL_VALUES), ('complex', COMPLEX_VALUES)):
                if cname == 'complex' and k == 4 and ctx.quick and (idx // ctx.nshards) % 3:
                    continue
                scope = lib_scope(vals, False)
                renv = ref_env(vals, False)
                ref = ref_tokens(tokens, renv)
                out = evaluate(ctx, s, scope)
                ctx.ev()
                ctx.count('flat_sequences')
                if cname == 'complex':
                    ctx.count('complex_binding_cases')
                wit = {'string': s, 'bindings': cname}
                good = compare(ctx, 'C03:flat:' + cname, s, out, ref, wit)
                if ref[0] == 'ok':
                    disc = []
                    for var in VARIANTS:
                        alt = ref_tokens(tokens, renv, var)
                        if alt[0] != 'ok' or not G.close(alt[1], ref[1], ref[2], 1e-6):
                            disc.append(var)
                            ctx.count('discriminates:' + var)
                    if disc:
                        ctx.count('flat_discriminating')
                        if k >= 2:
                            ctx.nontrivial(s + '/' + cname)
                if good and rng.random() < 0.15:
                    s2 = G.join(tokens, rng, rng.choice(['spaces', 'tabs', 'mixed', 'emdash']))
                    out2 = evaluate(ctx, s2, scope)
                    ctx.ev()
                    ctx.count('renderings_checked')
                    compare(ctx, 'C03:flat:rendering', s2, out2, ref, {'string': s2, 'plain': s, 'bindings': cname})
        counts[k] = (n_k, complete)
        ctx.subspace('operator sequences of length %d (with all unary-minus placements)' % k, n_k, complete)


# ------------------------------------------------------------------ (2) random derivations
def run_random(ctx):
    rng = ctx.rng
    n = ctx.n(6000, 150000)
    for i in range(n):
        complex_b = i % 3 == 0
        metric = i % 4 == 0
        arrays = i % 5 == 0
        bindings = G.make_bindings(rng, complex_b)
        gen = G.Gen(rng, G.VAR_NAMES, metric=metric, arrays=arrays)
        depth = rng.choice([1, 2, 2, 3, 3, 4, 5, 6])
        if arrays and rng.random() < 0.7:
            if rng.random() < 0.6:
                node = gen.vector(rng.randint(2, 3), min(depth, 3))
            else:
                node = gen.matrix(rng.randint(2, 3), rng.randint(2, 3), min(depth, 2))
            ctx.count('array_derivations')
        else:
            node = gen.scalar(depth)
        tokens = G.toks(node)
        if len(tokens) > 60:
            continue
        scope = lib_scope(bindings, metric)
        renv = ref_env(bindings, metric)
        env = G.Env(*renv)
        try:
            ref = ('ok', G.eval_ast(node, env), env.scale)
        except G.RefError as e:
            ref = ('undef', e.kind, env.scale)
        except (ZeroDivisionError, OverflowError):
            ref = ('undef', 'arith', env.scale)
        # harness self-check: string-side oracle must agree with generator-side oracle
        ref2 = ref_tokens(tokens, renv)
        if ref[0] != ref2[0] or (ref[0] == 'ok' and not G.close(ref2[1], ref[1], ref[2], 1e-12)):
            ctx.inconclusive_because('harness bug: the two reference evaluators disagree on %r: %r vs %r'
                                     % (''.join(tokens), ref[:2], ref2[:2]))
            return
        ctx.count('random_derivations')
        if complex_b:
            ctx.count('complex_binding_cases')
        if metric and gen.used_sufs - {'%'}:
            ctx.count('metric_suffix_cases')
        plain = ''.join(tokens)
        if depth >= 2:
            ctx.nontrivial(plain)
        if i < 4:
            ctx.sample({'string': plain, 'bindings': {k: bindings[k] for k in sorted(gen.used_vars) if k in bindings},
                        'reference': ref[1]})
        renderings = [('plain', plain)]
        for mode in ('spaces', 'tabs', 'mixed', 'emdash'):
            renderings.append((mode, G.join(tokens, rng, mode)))
        renderings.append(('parens', ''.join(G.toks(G.add_redundant_parens(node, rng)))))
        values = []
        for mode, s in renderings:
            out = evaluate(ctx, s, scope)
            ctx.ev()
            ctx.count('renderings_checked')
            wit = {'string': s, 'rendering': mode, 'plain': plain,
                   'bindings': {k: bindings[k] for k in sorted(gen.used_vars) if k in bindings},
                   'metric_suffixes': metric}
            compare(ctx, 'C03:random:' + mode, s, out, ref, wit)
            values.append(out)
        # renderings must agree with each other even where the reference is undefined
        base = values[0]
        for (mode, s), out in zip(renderings[1:], values[1:]):
            same = base.kind == out.kind and (
                (base.kind == 'exc' and type(base.exc) is type(out.exc)) or
                (base.kind == 'ok' and (G.close(out.value, base.value, ref[2] if ref[0] == 'ok' else 1.0)
                                        or (base.value != base.value and out.value != out.value))) or
                base.kind == 'hang')
            if not same:
                ctx.violation('C03:rendering_dependent:' + mode,
                              'plain %r gives %r but %r gives %r' % (plain, base.brief(), s, out.brief()),
                              {'plain': plain, 'rendering': s})


# ------------------------------------------------------------------ (3) invalid by construction
FOREIGN = ['#', '$', '&', '=', ';', '\\', '!', '@', '~', '"', '?', ':', '>', '<', '`', u'×', u'÷',
           u'−', u'２', '|', u'√', u'π']      # (a comma is legal inside argument lists and arrays: not foreign)


def make_invalid(rng, tokens):
    """Return (kind, string, allowed exception class names)."""
    toks = list(tokens)
    PARSE = ('UnableToParse',)
    kind = rng.choice(['double_op', 'empty_paren', 'empty_array', 'empty_args', 'dangling_end',
                       'dangling_start', 'foreign', 'juxta_var', 'juxta_paren', 'unbalanced_open',
                       'unbalanced_close', 'mismatched', 'case_var', 'case_func', 'juxta_num_var',
                       'double_unary', 'trailing_comma', 'juxta_tab', 'juxta_tab'])
    binops = [i for i, t in enumerate(toks) if t in ('+', '*', '/', '^', '||') and i > 0]
    if kind == 'double_op':
        if not binops:
            return None
        i = rng.choice(binops)
        extra = rng.choice(['*', '/', '^', '+', '||'])
        if extra == '+' and toks[i] != '+' and False:
            pass
        # after a binary operator only a unary minus may follow; a leading '+' is valid only at
        # the very start of a sum -> any of these doubled operators is outside the grammar
        return kind, ''.join(toks[:i + 1] + [extra] + toks[i + 1:]), PARSE
    if kind == 'double_unary':
        return kind, rng.choice(['--', '-+', '++']) + ''.join(toks), PARSE
    if kind == 'empty_paren':
        i = rng.randint(0, len(toks))
        s = ''.join(toks[:i]) + ('+' if i and toks[i - 1] not in '(+-*/^||,[' else '') + '()' + \
            ('+' if i < len(toks) and toks[i] not in ')],+-*/^||' else '') + ''.join(toks[i:])
        return kind, s, PARSE
    if kind == 'empty_array':
        return kind, ''.join(toks) + '+[]', PARSE
    if kind == 'empty_args':
        return kind, ''.join(toks) + '+' + rng.choice(['sin', 'f', 'g']) + '()', PARSE
    if kind == 'trailing_comma':
        return kind, ''.join(toks) + '+' + rng.choice(['f(1,)', 'f(,1)', '[1,]', '[,1]', 'f(1,,2)']), PARSE
    if kind == 'dangling_end':
        return kind, ''.join(toks) + rng.choice(['+', '-', '*', '/', '^', '||', '^-']), PARSE
    if kind == 'dangling_start':
        return kind, rng.choice(['*', '/', '^', '||']) + ''.join(toks), PARSE
    if kind == 'foreign':
        ch = rng.choice(FOREIGN)
        i = rng.randint(0, len(toks))
        return kind, ''.join(toks[:i]) + ch + ''.join(toks[i:]), PARSE
    if kind == 'juxta_var':
        # 'a b' is lexically the name 'ab' (or a function call / longer name): rejected, no value
        return kind, ''.join(toks) + ' ' + 'qq', ('UnableToParse', 'UndefinedVariable', 'UndefinedFunction')
    if kind == 'juxta_num_var':
        return kind, '2' + 'qq' + '+' + ''.join(toks), ('UnableToParse', 'UndefinedVariable', 'UndefinedFunction')
    if kind == 'juxta_tab':
        # a tab / line break is allowed BETWEEN tokens only: inside a number or a name, or between two operands,
        # it makes a juxtaposition, which is outside the grammar
        ws = rng.choice(['\t', '\n', '\r\n', '\t '])
        piece = rng.choice(['2%s3', '1%s.5', 'x%sy', 'a%sb1', 'sin%sh(1)', '1e%s3', '2%sk', 'x_%s1', '(1)%s(2)', 'x%s2', '3%sx']) % ws
        return kind, ''.join(toks) + '+' + piece, PARSE + ('UndefinedVariable', 'UndefinedFunction')
    if kind == 'juxta_paren':
        return kind, '(' + ''.join(toks) + ')' + rng.choice(['(2)', '2', 'a', '[1,2]']), PARSE
    if kind == 'unbalanced_open':
        i = rng.randint(0, len(toks))
        return kind, ''.join(toks[:i]) + rng.choice('([') + ''.join(toks[i:]), ('UnbalancedBrackets', 'UnableToParse')
    if kind == 'unbalanced_close':
        i = rng.randint(0, len(toks))
        return kind, ''.join(toks[:i]) + rng.choice(')]}') + ''.join(toks[i:]), ('UnbalancedBrackets', 'UnableToParse')
    if kind == 'mismatched':
        return kind, '(' + ''.join(toks) + ']', ('UnbalancedBrackets',)
    if kind == 'case_var':
        return kind, ''.join(toks) + '+' + rng.choice(['Theta', 'PI', 'Aa', 'XX1', 'I']), ('UndefinedVariable',)
    if kind == 'case_func':
        return kind, ''.join(toks) + '+' + rng.choice(['Sin(1)', 'COS(1)', 'G(1)', 'Exp(1)', 'sIn(2)']), ('UndefinedFunction',)
    return None


def run_invalid(ctx):
    from mitxgraders.helpers.calc.exceptions import CalcError
    rng = ctx.rng
    bindings = G.make_bindings(random.Random(7))
    scope = lib_scope(bindings, False)
    for i in range(ctx.n(6000, 100000)):
        gen = G.Gen(rng, G.VAR_NAMES, arrays=(i % 4 == 0))
        tokens = G.toks(gen.scalar(rng.randint(0, 3)))
        made = make_invalid(rng, tokens)
        if not made:
            continue
        kind, s, allowed = made
        out = evaluate(ctx, s, scope)
        ctx.ev()
        ctx.count('invalid_strings')
        ctx.count('invalid:' + kind)
        wit = {'string': s, 'kind': kind, 'outcome': out.brief()}
        if out.returned:
            ctx.violation('C03:invalid_accepted:' + kind, 'string outside the grammar got the value %r' % (out.value,), wit)
        elif out.kind == 'hang':
            ctx.violation('C03:invalid:hang', 'did not terminate', wit)
        elif not isinstance(out.exc, CalcError):
            ctx.violation('C03:invalid:foreign_exception:' + kind, 'raised %r' % (out.exc,), wit)
        elif type(out.exc).__name__ not in allowed:
            # a *different* student-facing error (e.g. an undefined name met first) is tolerated
            # only when the string also contains an undefined name; our strings do not.
            ctx.violation('C03:invalid:wrong_error:' + kind,
                          'expected %s, got %r' % ('/'.join(allowed), out.exc), wit)
        if i < 2:
            ctx.sample({'invalid_string': s, 'kind': kind, 'error': out.brief()})


# ------------------------------------------------------------------ (4) grader layer
def fmt_number(v):
    if isinstance(v, complex):
        return '%r+%r*i' % (v.real, v.imag) if v.imag >= 0 else '%r-%r*i' % (v.real, -v.imag)
    return repr(float(v))


def run_graders(ctx):
    from mitxgraders import NumericalGrader, FormulaGrader
    rng = ctx.rng
    for i in range(ctx.n(1200, 20000)):
        gen = G.Gen(rng, [], metric=False, arrays=False)
        node = gen.scalar(rng.randint(1, 4))
        tokens = G.toks(node)
        renv = ref_env({}, False)
        ref = ref_tokens(tokens, renv)
        if ref[0] != 'ok' or isinstance(ref[1], np.ndarray):
            continue
        v = ref[1]
        mag = abs(v)
        if not (1e-6 < mag < 1e9) or ref[2] > 1e6 * mag:
            continue
        s = G.join(tokens, rng, rng.choice(['plain', 'spaces', 'mixed']))
        cls = NumericalGrader if i % 2 == 0 else FormulaGrader
        user = {'user_functions': dict(G.USER_FUNCTIONS_LIB)}
        for factor, want in ((1.0, True), (1.02, False), (0.97, False)):
            try:
                g = cls(answers=fmt_number(v * factor), tolerance='0.1%', **user)
            except Exception as exc:
                ctx.inconclusive_because('harness: cannot build constant grader for %r: %r' % (fmt_number(v * factor), exc))
                return
            out = lib.call(ctx, g, None, s)
            ctx.ev()
            ctx.count('grader_layer_calls')
            wit = {'grader': cls.__name__, 'answer': fmt_number(v * factor), 'submission': s, 'reference': v}
            if not out.returned:
                ctx.violation('C03:grader:raises', 'constant expression raised %r' % (out.exc,), wit)
            elif (out.value['ok'] is True) != want:
                ctx.violation('C03:grader:verdict', 'expected ok=%s, got %r' % (want, out.value), wit)


HAND_LISTED = [
    # products with two vectors and further scalar / matrix factors evaluate left to right
    ('2*[1,2]*[3,4]', 22.0), ('[1,2]*2*[3,4]', 22.0), ('[1,2]*[3,4]*2', 22.0), ('3*2*[1,2]*[3,4]', 66.0), ('x*[1,0]*[y,1]', None),
    ('[[1,2],[3,4]]*[1,1]*[1,1]', 10.0), ('2*[1,1]*[[1,2],[3,4]]*[1,1]', 20.0), ('[1,1]*[[1,2],[3,4]]*[1,1]/2', 5.0),
    ('-[1,2]*[3,4]', -11.0), ('2*[1,2]*[3,4]^1', None), ('[1,2]*[3,4]+1', 12.0), ('1+2*[1,2]*[3,4]', 23.0),
    # a minus sign in front of a complex-typed value with zero imaginary part, then a branch cut: the principal value
    ('(-i^4)^0.5', 1j), ('sqrt(-(i^4))', 1j), ('sqrt(-(z*conj(z)))', 5j), ('ln(-(i^4))', math.pi * 1j), ('(-(2+0*i))^0.5', math.sqrt(2) * 1j),
    ('sqrt(-w)', math.sqrt(2) * 1j), ('ln(-w)', complex(math.log(2), math.pi)), ('(-w)^0.5', math.sqrt(2) * 1j),
    # quiet underflow is an ordinary value (zero or a denormal), in scalars, functions and arrays alike
    ('exp(-1000)', 0.0), ('1/(1+exp(-800))', 1.0), ('exp(-30^2)', 0.0), ('sin(1e-310)', 1e-310), ('1e-200*1e-200', 0.0), ('e^-1000', 0.0),
    ('2^-1080', 0.0), ('[1e-200,1]*1e-200', np.array([0.0, 1e-200])), ('[1e-160,1]*[1e-160,1]', 1.0),
    ('[[1e-200,0],[0,1]]^2', np.array([[0.0, 0.0], [0.0, 1.0]])), ('tanh(1e-320)', 1e-320), ('sqrt(1e-320)', math.sqrt(1e-320)),
    ('[1e-300,2]/1e10', np.array([1e-310, 2e-10])), ('abs(1e-200*i)^2', 0.0), ('cos(1e-200)', 1.0),
]


def _allclose(got, want):
    with np.errstate(all='ignore'):      # the harness's own arithmetic must not depend on the library's process-wide numpy error state
        return bool(np.allclose(np.asarray(got, dtype=complex), np.asarray(want, dtype=complex), rtol=1e-9, atol=1e-300))


def run_hand_listed(ctx):
    from mitxgraders.helpers.calc import evaluator, DEFAULT_FUNCTIONS, DEFAULT_VARIABLES
    variables = dict(DEFAULT_VARIABLES, x=3.0, y=5.0, z=3 + 4j, w=2 + 0j)
    for rep in range(ctx.pick(1, 3)):
        for s_, want in HAND_LISTED:
            if want is None:
                want = {'x*[1,0]*[y,1]': 15.0, '2*[1,2]*[3,4]^1': None}[s_]
            out = lib.call(ctx, lambda: evaluator(s_, variables, DEFAULT_FUNCTIONS, {'%': 0.01}, max_array_dim=2)[0])
            ctx.ev()
            ctx.count('hand_listed_checks')
            wit = {'string': s_, 'expected': want, 'outcome': out.brief()}
            ctx.nontrivial('hand:' + s_)
            if want is None:
                # a vector raised to a power: an error of the library's family
                if out.returned:
                    ctx.violation('C03:hand_listed:value_where_error', '%r returned %r' % (s_, out.value), wit)
                continue
            numeric = [w for w in out.warnings if w[0] in ('RuntimeWarning', 'ComplexWarning')]
            if not out.returned:
                ctx.violation('C03:hand_listed:error_for_valid:' + type(out.exc).__name__, '%r raised %r; its value is %r' % (s_, out.exc, want), wit)
            elif numeric:
                ctx.violation('C03:hand_listed:warning', '%r emitted %r' % (s_, numeric[:2]), wit)
            elif not _allclose(out.value, want):
                ctx.violation('C03:hand_listed:value', '%r = %r, expected %r' % (s_, out.value, want), wit)


def run_after_metric_graders(ctx):
    """Metric suffixes belong to the grader that asked for them: '5k' stays outside the grammar of every other grader."""
    import mitxgraders as M
    for i in range(ctx.pick(4, 40)):
        with_suffix = M.FormulaGrader(answers='5k', metric_suffixes=True)
        a = lib.call(ctx, with_suffix, None, '5000')
        for g, s_ in ((M.NumericalGrader(answers='5000'), '5k'), (M.FormulaGrader(answers='2*x', variables=['x']), '2m*x*1000'),
                      (M.MatrixGrader(answers='[2,1]'), '[2000m, 1]')):
            out = lib.call(ctx, g, None, s_)
            ctx.ev()
            ctx.count('suffix_isolation_checks')
            if a.returned and a.value['ok'] is not True:
                ctx.violation('C03:suffix:metric_grader_rejects_value', repr(a.brief()), {'string': '5000'})
            if out.returned:
                ctx.violation('C03:suffix:metric_suffix_accepted_without_the_option', '%r was evaluated (%r) by a grader built without metric_suffixes'
                              % (s_, out.value), {'string': s_, 'grader': type(g).__name__})


def run_after_matrix_graders(ctx):
    """The value of a string does not depend on what graders did before: matrix inverses after MatrixGrader calls (incl.
    raising ones) made with negative powers switched off."""
    from mitxgraders import MatrixGrader, RealMatrices
    from mitxgraders.helpers.calc import evaluator, DEFAULT_FUNCTIONS, DEFAULT_VARIABLES
    rng = ctx.rng
    probes = [('[[2,0],[0,4]]^-1', np.array([[0.5, 0.], [0., 0.25]])), ('[[1,2],[3,4]]^-2*[[1,2],[3,4]]^2', np.eye(2)),
              ('2*[[2,0],[0,4]]^(0-1)', np.array([[1., 0.], [0., 0.5]])), ('[[0,1],[1,0]]^-3', np.array([[0., 1.], [1., 0.]]))]
    for i in range(ctx.n(320, 4000)):
        g = MatrixGrader(answers='A', variables=['A'], sample_from={'A': RealMatrices(shape=[2, 2])}, negative_powers=rng.random() < 0.3,
                         max_array_dim=2)
        sub = rng.choice(['A^-1*A*A', 'A+', 'zz*A', 'A', 'A^-1', '[[1,2],[2,4]]^-1*A', 'A*[1,2,3]', 'A^0.5', '1/0*A'])
        before = lib.call(ctx, g, None, sub)
        s_, want = rng.choice(probes)
        out = lib.call(ctx, lambda: evaluator(s_, DEFAULT_VARIABLES, DEFAULT_FUNCTIONS, {'%': 0.01}, max_array_dim=2)[0])
        ctx.ev()
        ctx.count('values_after_matrix_grader_calls')
        wit = {'string': s_, 'earlier_grader_call': {'negative_powers': g.config['negative_powers'], 'submission': sub, 'outcome': before.brief()},
               'outcome': out.brief()}
        ctx.nontrivial(['after_matrix', sub, s_, g.config['negative_powers']])
        if not out.returned:
            ctx.violation('C03:history:error_for_valid:' + type(out.exc).__name__, 'valid expression raised %r after a grader call' % (out.exc,), wit)
        elif not np.allclose(np.asarray(out.value, dtype=complex), want, rtol=1e-9, atol=1e-12):
            ctx.violation('C03:history:value', 'got %r, value is %r' % (out.value, want), wit)


def run_literals(ctx):
    """Number literals on their own: mantissa forms x exponents x every suffix, judged relative to their OWN magnitude."""
    from mitxgraders.helpers.calc import evaluator, METRIC_SUFFIXES
    rng = ctx.rng
    sufs = dict(METRIC_SUFFIXES)
    sufs['%'] = 0.01
    idx = 0
    for k in range(ctx.n(3200, 60000)):
        digits = rng.randint(1, 12)
        mant = '%d.%s' % (rng.randint(0, 99), ''.join(rng.choice('0123456789') for _ in range(digits))) if rng.random() < 0.8 else str(rng.randint(1, 99999))
        if rng.random() < 0.2:
            mant = mant.lstrip('0') if mant.startswith('0.') else mant       # '.123'
        exp = rng.choice(['', '', 'e-3', 'e-7', 'E-12', 'e5', 'e+9', 'e-20', 'e15'])
        suf = rng.choice(list(sufs) + ['', ''])
        text = mant + exp + suf
        try:
            want = float(mant + exp) * (sufs[suf] if suf else 1.0)
        except ValueError:
            continue
        out = lib.call(ctx, lambda: evaluator(text, {}, {}, sufs)[0])
        ctx.ev()
        ctx.count('literal_checks')
        wit = {'literal': text, 'expected': want, 'outcome': out.brief()}
        if want != 0 and abs(want) < 1e-9:
            ctx.count('tiny_literals')
            ctx.nontrivial('lit:' + text)
        if not out.returned:
            ctx.violation('C03:literal:error_for_valid', 'literal %r raised %r' % (text, out.exc), wit)
        elif abs(out.value - want) > 1e-12 * abs(want):
            ctx.violation('C03:literal:value' + (':suffix' if suf else ''), 'literal %r evaluates to %r, its value is %r' % (text, out.value, want), wit)


def run_overridden_constants(ctx):
    """Names resolve to the SUPPLIED constants: an author constant that replaces a default one (e, pi, i, j with
    suppress_warnings) has the author's value, judged against literal numbers."""
    from mitxgraders import NumericalGrader, FormulaGrader
    rng = ctx.rng
    defaults = {'e': math.e, 'pi': math.pi, 'i': 1j, 'j': 1j}
    templates = [('{c}*2+1', lambda c: c * 2 + 1), ('{c}^2', lambda c: c ** 2), ('1/{c}', lambda c: 1 / c), ('3-{c}', lambda c: 3 - c),
                 ('2{c}'.replace('2{c}', '2*{c}*{c}'), lambda c: 2 * c * c), ('({c}+1)/2', lambda c: (c + 1) / 2)]
    for rep in range(ctx.pick(30, 300)):
        name = rng.choice(sorted(defaults))
        val = rng.choice([5.0, -2.5, 0.25, 3 + 1j, 42])
        tpl, fn = rng.choice(templates)
        cls = rng.choice([NumericalGrader, FormulaGrader])
        extra = {'variables': ['x']} if cls is FormulaGrader and rng.random() < 0.5 else {}
        sub = tpl.format(c=name)
        for use, want in ((val, True), (defaults[name], False)):
            target = fn(complex(use) if isinstance(use, complex) else float(use))
            if want is False and abs(target - fn(complex(val))) <= 0.01 * abs(target):
                continue
            literal = fmt_number(target).replace('*i', '*j') if name == 'i' else fmt_number(target)     # (the literal must not use the replaced name)
            g = cls(answers=literal, user_constants={name: val}, suppress_warnings=True, tolerance='0.1%', **extra)
            out = lib.call(ctx, g, None, sub)
            ctx.ev()
            ctx.count('overridden_constant_checks')
            wit = {'grader': cls.__name__, 'user_constants': {name: repr(val)}, 'answer_literal': literal, 'submission': sub}
            ctx.nontrivial(['override', name, repr(val), tpl])
            if not out.returned:
                ctx.violation('C03:overridden_constant:raises', repr(out.exc), wit)
            elif (out.value['ok'] is True) != want:
                ctx.violation('C03:overridden_constant:' + ('author_value_not_used' if want else 'default_value_used'),
                              '%r with %s=%r graded %r against the literal %s' % (sub, name, val, out.value['ok'], literal), wit)


def run_inplace_functions(ctx):
    """A supplied function is applied to the VALUE of a name: one that happens to work in place on the array it receives changes
    neither the other occurrences of the name in the same string nor the scope the caller supplied."""
    from mitxgraders.helpers.calc import evaluator, DEFAULT_FUNCTIONS, DEFAULT_VARIABLES, MathArray

    def relu(v):
        v[v < 0] = 0
        return v

    def clip1(v):
        np.clip(v, -1, 1, out=v)
        return v

    def scale(v):
        v *= 2
        return v
    funcs = dict(DEFAULT_FUNCTIONS, relu=relu, clip1=clip1, scale=scale)
    table = [('v - relu(v)', [0.0, -2.0, 0.0]), ('relu(v) + v', [2.0, -2.0, 6.0]), ('v + relu(v)', [2.0, -2.0, 6.0]), ('clip1(v) - v', [0.0, 1.0, -2.0]),
             ('scale(v) - v', [1.0, -2.0, 3.0]), ('scale(v) - 2*v', [0.0, 0.0, 0.0]), ('relu(v)*v', 10.0), ('v*v + 0*relu(v)*v', 14.0),
             ('scale(scale(v)) - v', [3.0, -6.0, 9.0]), ('relu(m)*v - m*v', [-4.0, 0.0])]
    for rep in range(ctx.pick(2, 6)):
        for s_, want in table:
            variables = dict(DEFAULT_VARIABLES, v=MathArray([1.0, -2.0, 3.0]), m=MathArray([[1.0, -2.0, 0.0], [0.0, 1.0, 2.0]]))
            out = lib.call(ctx, lambda: evaluator(s_, variables, funcs, {}, max_array_dim=2)[0])
            ctx.ev()
            ctx.count('inplace_function_checks')
            ctx.nontrivial('inplace:' + s_)
            wit = {'string': s_, 'v': [1.0, -2.0, 3.0], 'm': [[1.0, -2.0, 0.0], [0.0, 1.0, 2.0]], 'expected': want, 'outcome': out.brief()}
            if not out.returned:
                ctx.violation('C03:inplace_function:raises', repr(out.exc), wit)
            elif not _allclose(out.value, want):
                ctx.violation('C03:inplace_function:value', '%r = %r, expected %r' % (s_, out.value, want), wit)
            if not (_allclose(variables['v'], [1.0, -2.0, 3.0]) and _allclose(variables['m'], [[1.0, -2.0, 0.0], [0.0, 1.0, 2.0]])):
                ctx.violation('C03:inplace_function:scope_modified', 'after %r the supplied v is %r' % (s_, variables['v']), wit)


def run(ctx):
    run_hand_listed(ctx)
    run_inplace_functions(ctx)
    run_overridden_constants(ctx)
    run_literals(ctx)
    run_after_matrix_graders(ctx)
    run_after_metric_graders(ctx)
    run_flat(ctx)
    run_random(ctx)
    if ctx.inconclusive:
        return
    run_invalid(ctx)
    run_graders(ctx)
