"""
C19 -- SumGrader accepts exactly the sums equal in value to the author's.

Oracle: a Python reference summation (inclusive integer range between the two limits in either
order, parity filter, cutoff for infinite limits) with closed-form summands.  The author's side
of the grader is a one-term sum whose summand is the *reference value* (or a perturbed one), so
the verdict decides "library sum == reference sum".  Equivalence transformations (index shift,
reversal, renaming) and non-equivalent perturbations are also graded against real author sums.
"""
import itertools
import math

import numpy as np

from vf import lib

RULE = ('all integer limit pairs in [-12,12] in both orders x even_odd {0,1,2} x summands (polynomial, '
        'alternating, geometric, complex, vector-valued, depending on a scripted variable); index shifts, '
        'reversals, renamings (members) and limit +-1 / summand perturbations (non-members); every subset '
        'of input_positions; infinite limits with geometrically convergent summands and a configured '
        'cutoff; tolerance kinds; error classes for non-integer / complex limits, clashing summation '
        'variables, blank fields, instructor variables, author failures. Non-trivial = every graded sum '
        'with at least 2 terms or an expected error; distinct by full case.')
ASSUMPTIONS = ['reference summands in Python floats/complex; sums compared by the grader itself at 1e-9 absolute '
               '(author side = reference value) so only misses >= 1e-6 are used as non-members',
               'IntegralGrader not exercised (needs scipy)']

SUMMANDS = [
    ('{v}^2+3*{v}+1', lambda n, x: n * n + 3 * n + 1, 'poly'),
    ('x*{v}-2', lambda n, x: x * n - 2, 'var'),
    ('(-1)^{v}*({v}+1)', lambda n, x: (-1.0) ** n * (n + 1), 'alt'),
    ('2^{v}/100', lambda n, x: 2.0 ** n / 100, 'geom'),
    ('1/({v}^2+1)', lambda n, x: 1.0 / (n * n + 1), 'rational'),
    ('i^{v}+{v}', lambda n, x: 1j ** n + n, 'complex'),
    ('[{v},x*{v}^2]', lambda n, x: np.array([n, x * n * n], dtype=float), 'vector'),
    ('{v}', lambda n, x: float(n), 'identity'),
]


def gates(tier):
    return {'metric_suffix_limit_cases': 100, 'limit_grid_cases': 3000, 'members_expected': 2500, 'nonmembers_expected': 1500,
            'transformation_cases': 600, 'input_position_subsets': 15, 'infinite_limit_cases': 150,
            'student_error_cases': 300, 'percent_tolerance_cases': 300, 'relative_operand_discriminating': 100, 'author_error_cases': 40, 'empty_range_cases': 50, 'beyond_cutoff_cases': 60}


def ref_sum(f, lo, hi, even_odd, x, cutoff=None):
    inf = float('inf')
    a, b = min(lo, hi), max(lo, hi)
    if a == -inf:
        a = -cutoff
    if b == inf:
        b = cutoff
    total = 0
    count = 0
    for n in range(int(a), int(b) + 1):
        if even_odd == 1 and n % 2 == 0:
            continue
        if even_odd == 2 and n % 2 != 0:
            continue
        total = total + f(n, x)
        count += 1
    return total, count


def const_lit(v):
    """Formula literal of a reference value (number, complex, vector)."""
    if isinstance(v, np.ndarray):
        return '[' + ','.join(const_lit(t) for t in v) + ']'
    v = complex(v)
    re_ = repr(float(v.real)) if v.real >= 0 else '(0-%r)' % float(-v.real)
    if v.imag == 0:
        return re_
    return '(%s+%r*i)' % (re_, float(v.imag)) if v.imag >= 0 else '(%s-%r*i)' % (re_, float(-v.imag))


def num(n):
    return str(n) if n >= 0 else '(0-%d)' % -n if False else str(n)


def make_grader(value, even_odd, xval, tolerance=1e-9, **extra):
    """Author side: a one-term sum whose value is `value` (index of the right parity)."""
    from mitxgraders import SumGrader
    k0 = '2' if even_odd == 2 else '1'
    cfg = dict(answers={'lower': k0, 'upper': k0, 'summand': const_lit(value) + '+0*n', 'summation_variable': 'n'},
               even_odd=even_odd, tolerance=tolerance, variables=['x'], samples=2,
               sample_from={'x': lib.Scripted(values=[xval, xval])})
    cfg.update(extra)
    return SumGrader(**cfg)


def judge(ctx, key, out, want, wit):
    wit = dict(wit, outcome=out.brief())
    ctx.count('members_expected' if want else 'nonmembers_expected')
    ctx.nontrivial(wit)
    if not out.returned:
        ctx.violation(key + ':raises', 'raised %r' % (out.exc,), wit)
    elif (out.value['ok'] is True) != want:
        ctx.violation(key + (':equal_sum_rejected' if want else ':unequal_sum_accepted'),
                      'expected ok=%s, got %r' % (want, out.value), wit)
    elif set(out.value) != {'ok', 'grade_decimal', 'msg'}:
        ctx.violation(key + ':result_form', repr(out.value), wit)


def run_grid(ctx):
    rng = ctx.rng
    idx = 0
    n = 0
    for lo, hi in itertools.product(range(-12, 13), repeat=2):
        for eo in (0, 1, 2):
            idx += 1
            if not ctx.mine(idx):
                continue
            for rep in range(ctx.pick(2, len(SUMMANDS))):
                tpl, f, kind = SUMMANDS[(idx + rep) % len(SUMMANDS)]
                x = round(rng.uniform(1.5, 3.5), 2)
                value, count = ref_sum(f, lo, hi, eo, x)
                if count == 0:
                    ctx.count('empty_range_cases')
                perturb = rng.random() < 0.35
                author = value + (rng.choice([1.0, -0.5, 1e-3]) if perturb else 0)
                g = make_grader(author, eo, x)
                sub = [str(lo), str(hi), tpl.format(v='n'), 'n']
                out = lib.call(ctx, g, None, sub)
                ctx.ev()
                ctx.count('limit_grid_cases')
                n += 1
                wit = {'lower': lo, 'upper': hi, 'even_odd': eo, 'summand': sub[2], 'x': x, 'terms': count,
                       'reference_sum': value, 'author_value': author}
                judge(ctx, 'C19:range:even_odd=%d:%s' % (eo, 'reversed' if lo > hi else 'ordered'), out, not perturb, wit)
                if n <= 2:
                    ctx.sample(wit)
    ctx.subspace('limit pairs in [-12,12]^2 x even_odd {0,1,2}', n, True)


def eval_suffixed(text):
    """Value of '<number>[k|m]' as the grader must read it (used only to keep exactly representable spellings)."""
    if text.endswith('k'):
        return float(text[:-1]) * 1e3
    if text.endswith('m'):
        return float(text[:-1]) * 1e-3
    return float(text)


def run_transformations(ctx):
    """Real author sums; students submit transformed (equal) or perturbed (unequal) sums."""
    from mitxgraders import SumGrader
    rng = ctx.rng
    for i in range(ctx.n(1600, 150000)):
        tpl, f, kind = rng.choice(SUMMANDS)
        lo, hi = sorted([rng.randint(-8, 8), rng.randint(-8, 8)])
        if hi - lo < 1:
            hi = lo + 2
        eo = rng.choice([0, 0, 1, 2])
        x = round(rng.uniform(1.5, 3.5), 2)
        tol = rng.choice([1e-9, '0.0001%'])
        metric = rng.random() < 0.3
        default_tol = rng.random() < 0.2
        g = SumGrader(answers={'lower': str(lo), 'upper': str(hi), 'summand': tpl.format(v='n'), 'summation_variable': 'n'},
                      even_odd=eo, variables=['x'], samples=2, metric_suffixes=metric,
                      sample_from={'x': lib.Scripted(values=[x, x])}, **({} if default_tol else {'tolerance': tol}))
        if default_tol:
            tol = 1e-12       # the documented default of SumGrader: an ABSOLUTE tolerance of 1e-12
            ctx.count('default_tolerance_cases')
        kindt = rng.choice(['same', 'reverse', 'rename', 'shift', 'limit_plus', 'limit_minus', 'summand', 'parity_shift'] + (['slightly_off'] * 3 if default_tol and kind != 'vector' else []))
        v = 'n'
        slo, shi, ssum = lo, hi, tpl.format(v='n')
        want = True
        if kindt == 'reverse':
            slo, shi = hi, lo
        elif kindt == 'rename':
            v = rng.choice(['m', 'k', 'jj', "n'", 'idx_1'])
            ssum = tpl.format(v=v)
        elif kindt == 'shift':
            k = rng.choice([1, 2, -3, 4]) if eo == 0 else rng.choice([2, -2, 4])
            slo, shi = lo - k, hi - k
            ssum = tpl.format(v='(n+%d)' % k if k >= 0 else '(n-%d)' % -k)
        elif kindt == 'parity_shift' and eo != 0:
            # shifting by an odd amount under a parity filter changes which terms are summed
            k = 1
            slo, shi = lo - k, hi - k
            ssum = tpl.format(v='(n+1)')
            a, _ = ref_sum(f, lo, hi, eo, x)
            b, _ = ref_sum(lambda n, xx: f(n + 1, xx), slo, shi, eo, x)
            want = bool(np.all(np.abs(np.asarray(a) - np.asarray(b)) < 1e-12))
            if not want and not np.any(np.abs(np.asarray(a) - np.asarray(b)) > 1e-6):
                continue
        elif kindt in ('limit_plus', 'limit_minus'):
            shi = hi + 1 if kindt == 'limit_plus' else hi - 1
            a, _ = ref_sum(f, lo, hi, eo, x)
            b, _ = ref_sum(f, slo, shi, eo, x)
            diff = np.max(np.abs(np.asarray(a) - np.asarray(b)))
            if diff < 1e-12:
                want = True          # the extra / missing term is filtered out by parity (or is zero)
            elif diff > 1e-6 and (isinstance(tol, float) or diff > 1e-4 * np.max(np.abs(np.asarray(a)))):
                want = False
            else:
                continue
        elif kindt == 'summand':
            ssum = '(%s)+1' % tpl.format(v='n') if kind != 'vector' else '(%s)+[1,1]' % tpl.format(v='n')
            a, cnt = ref_sum(f, lo, hi, eo, x)
            want = cnt == 0
            if not want and isinstance(tol, str) and cnt < 1e-4 * np.max(np.abs(np.asarray(a))) * 100:
                continue
        elif kindt == 'slightly_off':
            # off by 1e-9 in total: far outside an absolute tolerance of 1e-12 (but inside any percentage one would think of)
            a, cnt = ref_sum(f, lo, hi, eo, x)
            if cnt == 0 or abs(a) > 1e3:
                continue
            ssum = '(%s)+1e-9' % tpl.format(v='n')
            want = False
        elif kindt == 'parity_shift':
            continue
        sub = [str(slo), str(shi), ssum, v]
        if metric:
            # the same integers written with metric suffixes (exactly representable: multiples of 1000 times 1m, thousandths times 1k)
            sfx = lambda z: rng.choice(['%d000m' % z, '%s0.%03dk' % ('-' if z < 0 else '', abs(z)), str(z)])
            cand = [sfx(slo), sfx(shi)]
            if all(abs(float(eval_suffixed(c)) - z) == 0 for c, z in zip(cand, (slo, shi))):
                sub = cand + [ssum, v]
                ctx.count('metric_suffix_limit_cases')
        out = lib.call(ctx, g, None, sub)
        ctx.ev()
        ctx.count('transformation_cases')
        wit = {'author': [lo, hi, tpl.format(v='n'), 'n'], 'even_odd': eo, 'x': x, 'submission': sub,
               'transformation': kindt, 'tolerance': tol}
        judge(ctx, 'C19:transform:' + kindt, out, want, wit)


def run_percent(ctx):
    """Percentage tolerance is relative to the AUTHOR's sum: near-boundary misses on both sides."""
    rng = ctx.rng
    for i in range(ctx.n(640, 40000)):
        tpl, f, kind = rng.choice(SUMMANDS[:5])
        lo, hi = sorted([rng.randint(-6, 6), rng.randint(-6, 6)])
        hi = max(hi, lo + 1)
        eo = rng.choice([0, 1, 2])
        x = round(rng.uniform(1.5, 3.5), 2)
        value, count = ref_sum(f, lo, hi, eo, x)
        if abs(value) < 1e-3:
            continue
        p = rng.choice([10, 25, 5])
        frac = p / 100.0
        # student/author ratio r: |1 - r| vs p% decides; relative to the student it would be |1 - r| / r
        r = rng.choice([1 - 0.95 * frac, 1 + 1.05 * frac, 1 + 0.95 * frac, 1 - 1.05 * frac])
        want = abs(1 - r) <= frac
        other = abs(1 - r) / r <= frac
        if want != other:
            ctx.count('relative_operand_discriminating')
        g = make_grader(value / r, eo, x, tolerance='%d%%' % p)
        sub = [str(lo), str(hi), tpl.format(v='n'), 'n']
        out = lib.call(ctx, g, None, sub)
        ctx.ev()
        ctx.count('percent_tolerance_cases')
        wit = {'submission': sub, 'even_odd': eo, 'x': x, 'student_sum': value, 'author_sum': value / r,
               'tolerance': '%d%%' % p, 'student_over_author': r}
        judge(ctx, 'C19:percent_tolerance' + (':relative_to_author' if want != other else ''), out, want, wit)


def run_positions(ctx):
    from mitxgraders import SumGrader
    rng = ctx.rng
    keys = ['lower', 'upper', 'summand', 'summation_variable']
    subsets = [s for r in range(1, 5) for s in itertools.combinations(keys, r)]
    for si, subset in enumerate(subsets):
        if not ctx.mine(si):
            continue
        ctx.count('input_position_subsets')
        for rep in range(ctx.pick(6, 100)):
            order = list(subset)
            rng.shuffle(order)
            # the dictionary is written in an order of its own: box numbers, not key order, say which box is which
            positions = {k: order.index(k) + 1 for k in rng.sample(order, len(order))}
            tpl, f, kind = rng.choice(SUMMANDS[:5])
            lo, hi = sorted([rng.randint(-5, 5), rng.randint(-5, 5)])
            hi = max(hi, lo + 1)
            x = 2.5
            author = {'lower': str(lo), 'upper': str(hi), 'summand': tpl.format(v='n'), 'summation_variable': 'n'}
            g = SumGrader(answers=author, input_positions=positions, variables=['x'], samples=2, tolerance=1e-9,
                          sample_from={'x': lib.Scripted(values=[x, x])})
            wrong = rng.random() < 0.5
            student = dict(author)
            mutated = None
            if wrong:
                mutated = rng.choice(order)
                if mutated == 'lower':
                    student['lower'] = str(lo - 1)
                elif mutated == 'upper':
                    student['upper'] = str(hi + 1)
                elif mutated == 'summand':
                    student['summand'] = '(%s)+1' % author['summand']
                else:
                    student['summation_variable'] = 'm'   # renaming alone keeps the value only if the summand is renamed too
                    if 'summand' in subset:
                        student['summand'] = tpl.format(v='m')
            a, _ = ref_sum(f, lo, hi, 0, x)
            if mutated == 'summation_variable':
                if 'summand' in subset:
                    want = True
                else:
                    want = None   # the author's summand still uses n, which is now undefined: an error
            elif wrong:
                b, _ = ref_sum(f if mutated != 'summand' else (lambda n, xx: f(n, xx) + 1),
                               int(student['lower']), int(student['upper']), 0, x)
                if abs(a - b) < 1e-6:
                    continue
                want = False
            else:
                want = True
            sub = [student[k] for k in order]
            inp = sub if len(sub) > 1 or rng.random() < 0.5 else sub[0]
            out = lib.call(ctx, g, None, inp)
            ctx.ev()
            wit = {'input_positions': positions, 'input_positions_key_order': list(positions), 'author': author, 'submission': inp, 'mutated': mutated}
            if want is None:
                ctx.count('student_error_cases')
                if out.returned or not lib.err_family(out.exc).startswith('StudentFacing'):
                    ctx.violation('C19:positions:undefined_variable_not_refused', repr(out.brief()), wit)
                continue
            judge(ctx, 'C19:positions:' + '+'.join(sorted(subset)), out, want, wit)
            # wrong number of inputs -> ConfigError
        bad = lib.call(ctx, g, None, ['1'] * (len(subset) + 1))
        ctx.ev()
        if bad.returned or lib.err_family(bad.exc) != 'ConfigError':
            ctx.violation('C19:positions:wrong_input_count', repr(bad.brief()), {'input_positions': positions})
    ctx.subspace('subsets of input_positions', len(subsets) // ctx.nshards + 1, True)


def run_infinite(ctx):
    rng = ctx.rng
    for i in range(ctx.n(320, 25000)):
        cutoff = rng.choice([50, 100, 200, 1000])
        ratio = rng.choice([2.0, 1.5, 3.0]) if cutoff <= 200 else 2.0
        eo = rng.choice([0, 1, 2])
        form = rng.choice(['upper', 'lower', 'both', 'reversed'])
        x = 2.0
        tpl = '1/%r^abs({v})' % ratio if form in ('both', 'lower') else '1/%r^{v}' % ratio
        f = (lambda n, xx, r=ratio: 1.0 / r ** abs(n)) if form in ('both', 'lower') else (lambda n, xx, r=ratio: 1.0 / r ** n)
        inf = float('inf')
        start = rng.randint(-3, 3)
        lo, hi, slo, shi = {'upper': (start, inf, str(start), 'infty'), 'lower': (-inf, start, '-infty', str(start)),
                            'both': (-inf, inf, '-infty', 'infty'), 'reversed': (inf, start, 'infty', str(start))}[form]
        value, count = ref_sum(f, lo, hi, eo, x, cutoff)
        perturb = rng.random() < 0.3
        g = make_grader(value + (0.01 if perturb else 0), eo, x, infty_val=cutoff)
        sub = [slo, shi, tpl.format(v='n'), 'n']
        out = lib.call(ctx, g, None, sub)
        ctx.ev()
        ctx.count('infinite_limit_cases')
        wit = {'submission': sub, 'even_odd': eo, 'infty_val': cutoff, 'terms': count, 'reference_sum': value}
        judge(ctx, 'C19:infinite:' + form, out, not perturb, wit)
    # finite limits beyond the cutoff are NOT truncated: the cutoff only replaces infinite limits
    for i in range(ctx.n(160, 10000)):
        cutoff = rng.choice([3, 5, 8])
        eo = rng.choice([0, 1, 2])
        lo = rng.randint(-12, 2)
        hi = rng.randint(cutoff + 1, 12)
        if rng.random() < 0.5:
            lo = rng.randint(-12, -cutoff - 1)
        tpl, f, kind = rng.choice(SUMMANDS[:4])
        x = 2.0
        value, count = ref_sum(f, lo, hi, eo, x)
        trunc, _ = ref_sum(f, max(lo, -cutoff), min(hi, cutoff), eo, x)
        if abs(value - trunc) < 1e-6:
            continue
        perturb = rng.random() < 0.3
        g = make_grader(trunc if perturb else value, eo, x, infty_val=cutoff)
        sub = [str(lo), str(hi), tpl.format(v='n'), 'n']
        out = lib.call(ctx, g, None, sub)
        ctx.ev()
        ctx.count('beyond_cutoff_cases')
        judge(ctx, 'C19:finite_limit_beyond_cutoff', out, not perturb,
              {'submission': sub, 'even_odd': eo, 'infty_val': cutoff, 'reference_sum': value, 'sum_truncated_at_cutoff': trunc})
    # same-sign infinite limits cannot be summed
    g = make_grader(1.0, 0, 2.0)
    for sub in (['infty', 'infty', '1/2^n', 'n'], ['-infty', '-infty', '1/2^n', 'n']):
        out = lib.call(ctx, g, None, sub)
        ctx.ev()
        ctx.count('student_error_cases')
        if out.returned or not lib.err_family(out.exc).startswith('StudentFacing'):
            ctx.violation('C19:infinite:same_infinity', repr(out.brief()), {'submission': sub})


def run_errors(ctx):
    from mitxgraders import SumGrader
    rng = ctx.rng
    base = dict(answers={'lower': '1', 'upper': '5', 'summand': 'n^2+secret*0', 'summation_variable': 'n'},
                variables=['x', 'secret'], instructor_vars=['secret'], samples=2, tolerance=1e-9,
                user_functions={'ff': lambda t: t}, user_constants={'cc': 3.0},
                sample_from={'x': lib.Scripted(values=[2.0, 2.0]), 'secret': lib.Scripted(values=[7.0, 7.0])})
    cases = [
        (['1.5', '5', 'n^2', 'n'], 'StudentFacing', 'noninteger_limit'), (['1', 'pi', 'n^2', 'n'], 'StudentFacing', 'noninteger_limit'),
        (['1', '5/2', 'n^2', 'n'], 'StudentFacing', 'noninteger_limit'), (['i', '5', 'n^2', 'n'], 'StudentFacing', 'complex_limit'),
        (['1', '5+i', 'n^2', 'n'], 'StudentFacing', 'complex_limit'), (['1', '5', 'x^2', 'x'], 'StudentFacing', 'variable_clash'),
        (['1', '5', 'pi^2', 'pi'], 'StudentFacing', 'variable_clash'), (['1', '5', 'e', 'e'], 'StudentFacing', 'variable_clash'),
        (['1', '5', 'i^2', 'i'], 'StudentFacing', 'variable_clash'), (['1', '5', 'sin^2', 'sin'], 'StudentFacing', 'variable_clash'),
        (['1', '5', 'ff^2', 'ff'], 'StudentFacing', 'variable_clash'), (['1', '5', 'cc^2', 'cc'], 'StudentFacing', 'variable_clash'),
        (['1', '5', 'n^2', '2n'], 'StudentFacing', 'invalid_variable_name'), (['1', '5', 'n^2', '_n'], 'StudentFacing', 'invalid_variable_name'),
        (['', '5', 'n^2', 'n'], 'StudentFacing:MissingInput', 'blank_field'), (['1', '', 'n^2', 'n'], 'StudentFacing:MissingInput', 'blank_field'),
        (['1', '5', '', 'n'], 'StudentFacing:MissingInput', 'blank_field'), (['1', '5', 'n^2', ''], 'StudentFacing:MissingInput', 'blank_field'),
        (['1', '5', 'n^2+0*secret', 'n'], 'StudentFacing:UndefinedVariable', 'instructor_variable'),
        (['secret-6', '5', 'n^2', 'n'], 'StudentFacing:UndefinedVariable', 'instructor_variable'),
        (['1', 'secret-2', 'n^2', 'n'], 'StudentFacing:UndefinedVariable', 'instructor_variable'),
        (['1', '5', 'm^2', 'n'], 'StudentFacing:UndefinedVariable', 'undefined_variable'),
        (['n', '5', 'n^2', 'n'], 'StudentFacing', 'variable_in_limit'),
        (['1/2', 'infty', '1/2^n', 'n'], 'StudentFacing', 'noninteger_limit_with_infinite_partner'),
        (['-infty', '5/2', '2^n', 'n'], 'StudentFacing', 'noninteger_limit_with_infinite_partner'),
        (['infty', '0.5', '1/2^n', 'n'], 'StudentFacing', 'noninteger_limit_with_infinite_partner'),
        (['i', 'infty', '1/2^n', 'n'], 'StudentFacing', 'complex_limit'),
        # complex-TYPED limits are refused whatever their imaginary part (documented: "limits must be real")
        (['1', '5+0*i', 'n^2', 'n'], 'StudentFacing', 'complex_limit'), (['i^2+2', '5', 'n^2', 'n'], 'StudentFacing', 'complex_limit'),
        (['1', '-(2*i)^2+1', 'n^2', 'n'], 'StudentFacing', 'complex_limit'), (['i^4', '5', 'n^2', 'n'], 'StudentFacing', 'complex_limit'),
        # almost-integers are not integers (and must not be silently truncated)
        (['1', '4.9999999999', 'n^2', 'n'], 'StudentFacing', 'noninteger_limit'), (['1', '(0.1+0.7)*10-3', 'n^2', 'n'], 'StudentFacing', 'noninteger_limit'),
        (['1.0000000001', '5', 'n^2', 'n'], 'StudentFacing', 'noninteger_limit'), (['0.3/0.1-2', '5', 'n^2', 'n'], 'StudentFacing', 'noninteger_limit'),
    ]
    for i in range(ctx.pick(2, 10)):
        # another sum in the course took default constants away for itself (user_constants={'i': None}): there i is free as a
        # summation variable; every other SumGrader, built before or after, keeps all default constants reserved
        freed = SumGrader(answers={'lower': '1', 'upper': '5', 'summand': 'n^2', 'summation_variable': 'n'}, user_constants={'i': None, 'e': None}, samples=2, tolerance=1e-9)
        out = lib.call(ctx, freed, None, ['1', '5', 'i^2', 'i'])
        ctx.ev()
        ctx.count('freed_constant_cases')
        if not out.returned or out.value['ok'] is not True:
            ctx.violation('C19:removed_constant_not_usable_as_summation_variable', repr(out.brief()), {'user_constants': {'i': None, 'e': None}, 'submission': ['1', '5', 'i^2', 'i']})
        for sub, fam, kind in cases:
            g = SumGrader(**dict(base, sample_from={'x': lib.Scripted(values=[2.0, 2.0]), 'secret': lib.Scripted(values=[7.0, 7.0])}))
            out = lib.call(ctx, g, None, list(sub))
            ctx.ev()
            ctx.count('student_error_cases')
            wit = {'submission': sub, 'kind': kind, 'outcome': out.brief()}
            ctx.nontrivial(wit)
            if out.returned:
                ctx.violation('C19:error:graded_instead_of_refused:' + kind, 'returned %r' % (out.value,), wit)
            elif not lib.err_family(out.exc).startswith(fam):
                ctx.violation('C19:error:class:' + kind, 'expected %s, got %r' % (fam, out.exc), wit)
    # instructor-only names of every kind: a single numbered instance, an author constant (the other instances stay usable)
    for i in range(ctx.pick(2, 10)):
        for sub, want in ((['1', '5', 'n^2+0*c_{1}', 'n'], 'refused'), (['1', '5', 'n^2+0*cc', 'n'], 'refused'), (['c_{1}-c_{1}+1', '5', 'n^2', 'n'], 'refused'),
                          (['1', '5+0*cc', 'n^2', 'n'], 'refused'), (['1', '5', 'n^2+c_{1}-c_{1}', 'n'], 'refused'),
                          (['1', '5', 'n^2+0*c_{2}', 'n'], 'graded'), (['1', '5', 'n^2', 'n'], 'graded')):
            g = SumGrader(answers={'lower': '1', 'upper': '5', 'summand': 'n^2+0*c_{1}+0*cc', 'summation_variable': 'n'}, numbered_vars=['c'],
                          instructor_vars=['c_{1}', 'cc'], user_constants={'cc': 3.0}, samples=2, tolerance=1e-9)
            out = lib.call(ctx, g, None, list(sub))
            ctx.ev()
            ctx.count('student_error_cases')
            wit = {'submission': sub, 'kind': 'instructor_variable', 'instructor_vars': ['c_{1}', 'cc'], 'numbered_vars': ['c'], 'outcome': out.brief()}
            ctx.nontrivial(wit)
            if want == 'refused':
                if out.returned:
                    ctx.violation('C19:error:graded_instead_of_refused:instructor_variable', 'returned %r' % (out.value,), wit)
                elif not lib.err_family(out.exc).startswith('StudentFacing:UndefinedVariable'):
                    ctx.violation('C19:error:class:instructor_variable', 'expected UndefinedVariable, got %r' % (out.exc,), wit)
            elif not out.returned or out.value['ok'] is not True:
                ctx.violation('C19:error:honest_sum_refused', repr(out.brief()), wit)
    # names of default functions stay reserved as summation variables also when a blacklist / whitelist excludes them from use
    for restr in ({'blacklist': ['sin']}, {'whitelist': ['cos']}, {'whitelist': [None]}, {'blacklist': ['exp', 'sin']}):
        for var in ('sin', 'exp', 'cos'):
            g = SumGrader(answers={'lower': '1', 'upper': '5', 'summand': 'n^2', 'summation_variable': 'n'}, samples=2, tolerance=1e-9, **restr)
            sub = ['1', '5', var + '^2', var]
            out = lib.call(ctx, g, None, list(sub))
            ctx.ev()
            ctx.count('student_error_cases')
            wit = {'submission': sub, 'kind': 'variable_clash', 'restriction': restr, 'outcome': out.brief()}
            ctx.nontrivial(wit)
            if out.returned:
                ctx.violation('C19:error:graded_instead_of_refused:variable_clash:restricted_function', 'returned %r' % (out.value,), wit)
            elif not lib.err_family(out.exc).startswith('StudentFacing'):
                ctx.violation('C19:error:class:variable_clash', repr(out.exc), wit)
    # what one grader's limits contained says nothing about the same summand text in another grader
    for i in range(ctx.pick(6, 60)):
        tag = 70000 + i * ctx.nshards + ctx.shard
        summand = 'n^2+%d' % tag
        ans = {'lower': '1', 'upper': '5', 'summand': summand, 'summation_variable': 'n'}
        g1 = SumGrader(answers=ans, samples=2, tolerance=1e-9, user_functions={'uf': lambda t: t * 1.0})
        first = lib.call(ctx, g1, None, [rng.choice(['uf(1)', 'abs(0-1)', 'floor(1.5)']), rng.choice(['5', 'uf(5)', 'ceil(4.5)']), summand, 'n'])
        g2 = SumGrader(answers=ans, samples=2, tolerance=1e-9, **rng.choice([{}, {'blacklist': ['abs', 'floor', 'ceil']}, {'whitelist': [None]}]))
        out = lib.call(ctx, g2, None, ['1', '5', summand, 'n'])
        ctx.ev()
        ctx.count('history_cases')
        wit = {'summand': summand, 'earlier_grader_outcome': first.brief(), 'outcome': out.brief()}
        ctx.nontrivial(['sumhist', tag])
        if not first.returned or first.value['ok'] is not True:
            ctx.violation('C19:history:first_call', 'limits written with functions: %r' % (first.brief(),), wit)
        if not out.returned or out.value['ok'] is not True:
            ctx.violation('C19:history:same_summand_in_another_grader', 'the author\'s own sum was not accepted: %r' % (out.brief(),), wit)
    # a random author function (redrawn for every sample) in the summand, no variables at all: the author's sum is recomputed per sample
    from mitxgraders import RandomFunction
    for i in range(ctx.pick(6, 60)):
        lo, hi = sorted([rng.randint(-4, 4), rng.randint(-4, 4)])
        hi = max(hi, lo + 1)
        g = SumGrader(answers={'lower': str(lo), 'upper': str(hi), 'summand': 'rf(n)+n', 'summation_variable': 'n'},
                      user_functions={'rf': RandomFunction(center=0, amplitude=3)}, samples=rng.choice([2, 3, 5]), tolerance=1e-9)
        kindt = rng.choice(['same', 'reverse', 'rename', 'shift', 'wrong'])
        sub = {'same': [str(lo), str(hi), 'rf(n)+n', 'n'], 'reverse': [str(hi), str(lo), 'n+rf(n)', 'n'], 'rename': [str(lo), str(hi), 'rf(k)+k', 'k'],
               'shift': [str(lo - 2), str(hi - 2), 'rf(n+2)+n+2', 'n'], 'wrong': [str(lo), str(hi), 'rf(n)+n+1', 'n']}[kindt]
        out = lib.call(ctx, g, None, list(sub))
        ctx.ev()
        ctx.count('random_function_summand_cases')
        wit = {'author': [lo, hi, 'rf(n)+n', 'n'], 'submission': sub, 'transformation': kindt, 'samples': g.config['samples'], 'outcome': out.brief()}
        ctx.nontrivial(wit)
        judge(ctx, 'C19:random_function_summand:' + kindt, out, kindt != 'wrong', wit)
    # author failures are configuration errors
    author_bad = [
        {'lower': '1.5', 'upper': '5', 'summand': 'n', 'summation_variable': 'n'},
        {'lower': '1', 'upper': '5', 'summand': 'zz*n', 'summation_variable': 'n'},
        {'lower': '1', 'upper': 'i', 'summand': 'n', 'summation_variable': 'n'},
        {'lower': '1', 'upper': '5', 'summand': '1/(n-3)', 'summation_variable': 'n'},
        {'lower': '1', 'upper': '5', 'summand': 'n', 'summation_variable': 'x'},
        {'lower': 'infty', 'upper': 'infty', 'summand': 'n', 'summation_variable': 'n'},
        {'lower': '1/2', 'upper': 'infty', 'summand': '1/2^n', 'summation_variable': 'n'},
    ]
    for ans in author_bad:
        try:
            g = SumGrader(answers=ans, variables=['x'], samples=2)
        except Exception as exc:  # noqa
            if lib.err_family(exc) != 'ConfigError':
                ctx.violation('C19:author_error:constructor_class', repr(exc), {'answers': ans})
            ctx.count('author_error_cases')
            continue
        out = lib.call(ctx, g, None, ['1', '5', 'n', 'n'])
        ctx.ev()
        ctx.count('author_error_cases')
        wit = {'answers': ans, 'outcome': out.brief()}
        ctx.nontrivial(wit)
        if out.returned or lib.err_family(out.exc) != 'ConfigError':
            ctx.violation('C19:author_error:not_a_config_error', repr(out.brief()), wit)


def run(ctx):
    run_grid(ctx)
    run_transformations(ctx)
    run_percent(ctx)
    run_positions(ctx)
    run_infinite(ctx)
    if ctx.shard % 2 == 0:
        run_errors(ctx)
    ctx.note('not_exercised', 'IntegralGrader (needs scipy)')
