"""
C06 -- the assignment solver returns a complete minimum-cost matching for any matrix.

Monitor: every Munkres().compute(M) call is checked online against an exact subset-DP
optimum (oracle/assign.py), for structure (min(r,c) pairs, rows/cols used once, in range),
for leaving the caller's matrix untouched (deep copy comparison), under a CPU watchdog
(bounded progress), with solver reuse compared against fresh solvers.
"""
import copy
import itertools

from vf.oracle import assign

RULE = ('matrices: exhaustive r,c<=3 over {0,1,2}; 4x4 over {0,1} (1/8 of the space per quick '
        'run, rotating with the seed; all in thorough); random integer / float / tie-heavy / '
        'grade-like (1-g) / near-tie matrices up to 10x10, square and rectangular; reuse '
        'sequences on one solver. Non-trivial = more than one row and column and at least two '
        'distinct matchings with different totals; distinct = by matrix content.')
ASSUMPTIONS = ['oracle: subset DP (cross-checked against brute force for n<=4 on every run)',
               'totals compared at 1e-9 * max(1, sum|entries|)']


def gates(tier):
    return {'solves_checked': 20000 if tier == 'quick' else 150000,
            'rectangular': 2000, 'float_matrices': 1000, 'reuse_sequences': 50,
            'nontrivial': 5000}


def _munkres():
    from mitxgraders.helpers import munkres
    return munkres


def total(M, pairs):
    return sum(M[i][j] for i, j in pairs)


def check_solve(ctx, M, kind, solver=None, fresh_total=None):
    munkres = _munkres()
    before = copy.deepcopy(M)
    s = solver if solver is not None else munkres.Munkres()
    status, out = ctx.timed(s.compute, M, _budget=5.0)
    ctx.ev()
    ctx.count('solves_checked')
    r, c = len(before), len(before[0])
    if r != c:
        ctx.count('rectangular')
    if any(isinstance(x, float) for row in before for x in row):
        ctx.count('float_matrices')
    wit = {'matrix': before, 'kind': kind}
    if status == 'hang':
        ctx.violation('C06:hang:' + kind, 'compute() did not terminate within the CPU budget (twice)', wit)
        return None
    if status == 'exc':
        ctx.violation('C06:raises:' + kind, 'compute() raised %r' % (out,), wit)
        return None
    if M != before:
        ctx.violation('C06:mutates_input', 'the caller\'s matrix was modified', dict(wit, after=M))
    pairs = list(out)
    wit['result'] = pairs
    prob = assign.check_matching(before, pairs)
    if prob:
        ctx.violation('C06:structure:' + ('square' if r == c else 'rect'), prob, wit)
        return None
    opt = assign.min_cost(before)
    got = total(before, pairs)
    scale = max(1.0, sum(abs(x) for row in before for x in row))
    if abs(got - opt) > 1e-9 * scale:
        ctx.violation('C06:suboptimal:' + kind,
                      'total %r but the optimum is %r' % (got, opt), dict(wit, optimum=opt, got=got))
    # non-triviality: several matchings with different totals exist
    if r > 1 and c > 1:
        worst = -assign.min_cost([[-x for x in row] for row in before])
        if worst - opt > 1e-9 * scale:
            ctx.count('nontrivial')
            ctx.nontrivial(before)
    return got


def gen_random(rng, kind):
    r = rng.randint(1, 10)
    c = r if rng.random() < 0.5 else rng.randint(1, 10)
    if kind in ('wide', 'tall'):
        # padded problems with several real rows/columns: the padding takes part in every reduction step
        a = rng.randint(4, 8)
        b = a + rng.randint(1, 3)
        r, c = (a, b) if kind == 'wide' else (b, a)
        hi = rng.choice([3, 9, 9, 20])
        if rng.random() < 0.3:
            return [[round(rng.choice([0, 0.25, 0.5, 0.75, 1]), 2) for _ in range(c)] for _ in range(r)]
        return [[rng.randint(0, hi) for _ in range(c)] for _ in range(r)]
    if kind == 'structured':
        # products / sums of row and column terms (what credit tables often look like): long runs of adjustment steps
        n_ = rng.randint(5, 10)
        r, c = (n_, n_) if rng.random() < 0.6 else (n_, rng.randint(5, 10))
        form = rng.choice(['prod', 'sumsq', 'ratio', 'rank1', 'sorted'])
        a_ = [rng.uniform(0.1, 3) for _ in range(r)]
        b_ = [rng.uniform(0.1, 3) for _ in range(c)]
        if form == 'prod':
            return [[(i + 1) * (j + 1) for j in range(c)] for i in range(r)]
        if form == 'sumsq':
            return [[(i + j) ** 2 for j in range(c)] for i in range(r)]
        if form == 'ratio':
            return [[(i + 1) / float(j + 1) for j in range(c)] for i in range(r)]
        if form == 'rank1':
            return [[a_[i] * b_[j] for j in range(c)] for i in range(r)]
        return [sorted(rng.random() for _ in range(c)) for _ in range(r)]
    if kind == 'aliased':
        # the same row OBJECT listed several times ("k identical workers"): still a matrix like any other
        c = rng.randint(2, 6)
        rows = [[rng.choice([0, 1, 2, 5, 0.5]) if rng.random() < 0.5 else round(rng.random(), 2) for _ in range(c)] for _ in range(rng.randint(1, 3))]
        k = rng.randint(2, 6)
        return [rows[rng.randrange(len(rows))] for _ in range(k)]
    if kind == 'int':
        hi = rng.choice([1, 2, 3, 9, 100])
        return [[rng.randint(0, hi) for _ in range(c)] for _ in range(r)]
    if kind == 'float':
        return [[rng.random() * rng.choice([1, 1, 10, 1e-3, 1e6]) for _ in range(c)] for _ in range(r)]
    if kind == 'ties':
        pal = rng.sample([0, 0.5, 1, 1.5, 2, 0.25], 2)
        return [[rng.choice(pal) for _ in range(c)] for _ in range(r)]
    if kind == 'grade':
        pal = [0, 0.1, 1 / 3., 0.45, 0.5, 0.7, 0.99, 1]
        sub = rng.sample(pal, rng.randint(2, 5))
        return [[1 - rng.choice(sub) for _ in range(c)] for _ in range(r)]
    if kind == 'neartie':
        pal = [0.1 + 0.2, 0.3, 0.1 * 3, 0.7 - 0.4, 1 - 0.7, 0.15 + 0.15, 0.6 / 2]
        return [[rng.choice(pal) for _ in range(c)] for _ in range(r)]
    if kind == 'mixed':
        return [[rng.choice([0, 1, 2.5, 1e-12, 1e12, 0.3]) for _ in range(c)] for _ in range(r)]
    raise ValueError(kind)


def run(ctx):
    munkres = _munkres()
    rng = ctx.rng

    # --- oracle self-check: DP == brute force on small random matrices
    for _ in range(300):
        r, c = rng.randint(1, 4), rng.randint(1, 4)
        M = [[rng.choice([0, 1, 2, 0.5, 1 / 3.]) for _ in range(c)] for _ in range(r)]
        if abs(assign.min_cost(M) - assign.brute_min_cost(M)) > 1e-12:
            ctx.inconclusive_because('harness bug: DP oracle disagrees with brute force on %r' % (M,))
            return
    ctx.count('oracle_selfcheck', 300)

    # --- exhaustive: r,c <= 3 over {0,1,2}
    idx = 0
    n_exh = 0
    for r in (1, 2, 3):
        for c in (1, 2, 3):
            for cells in itertools.product((0, 1, 2), repeat=r * c):
                if ctx.mine(idx):
                    M = [list(cells[i * c:(i + 1) * c]) for i in range(r)]
                    check_solve(ctx, M, 'exh3')
                    n_exh += 1
                idx += 1
    ctx.subspace('all r x c matrices, r,c<=3, entries in {0,1,2}', n_exh, True)

    # --- exhaustive: 4x4 over {0,1} (quick: one eighth, chosen by seed)
    n44 = 0
    for code in range(65536):
        if not ctx.mine(code):
            continue
        if ctx.quick and (code // ctx.nshards) % 8 != ctx.seed % 8:
            continue
        M = [[(code >> (4 * i + j)) & 1 for j in range(4)] for i in range(4)]
        check_solve(ctx, M, 'exh4x4')
        n44 += 1
    ctx.subspace('4x4 matrices over {0,1}' + (' (1/8 slice in quick)' if ctx.quick else ''),
                 n44, not ctx.quick)

    # --- random classes
    kinds = ['int', 'float', 'ties', 'grade', 'neartie', 'mixed', 'wide', 'wide', 'tall', 'structured', 'aliased']
    for i in range(ctx.n(90000, 2250000)):
        kind = kinds[i % len(kinds)]
        M = gen_random(rng, kind)
        check_solve(ctx, M, kind)
        if i < 2:
            ctx.sample({'kind': kind, 'matrix': M})

    # --- solver reuse: one instance, sequence of shapes; each solve also done fresh
    for s in range(ctx.n(2000, 40000)):
        solver = munkres.Munkres()
        length = rng.randint(2, 12)
        seq = []
        for _ in range(length):
            M = gen_random(rng, rng.choice(kinds))
            seq.append(copy.deepcopy(M))
            got = check_solve(ctx, M, 'reuse', solver=solver)
            if got is None:
                break
            fresh = munkres.Munkres().compute(copy.deepcopy(M))
            ft = total(M, fresh)
            scale = max(1.0, sum(abs(x) for row in M for x in row))
            if abs(ft - got) > 1e-9 * scale:
                ctx.violation('C06:reuse', 'reused solver total %r != fresh solver total %r' % (got, ft),
                              {'sequence': seq})
        ctx.count('reuse_sequences')

    from vf import lib
    lib.repo_tests_under_monitor(ctx, 'C06', ['munkres'])

    # --- make_cost_matrix: elementwise inversion, input untouched
    for _ in range(ctx.n(2000, 20000)):
        P = gen_random(rng, rng.choice(kinds))
        before = copy.deepcopy(P)
        inv = rng.choice([lambda x: 1 - x, lambda x: 100 - x, None])
        out = munkres.make_cost_matrix(P, inv) if inv else munkres.make_cost_matrix(P)
        ctx.ev()
        ctx.count('make_cost_matrix')
        if P != before:
            ctx.violation('C06:make_cost_matrix:mutates', 'profit matrix modified', {'matrix': before})
        f = inv if inv else (lambda x, m=max(max(row) for row in before): m - x)
        exp = [[f(v) for v in row] for row in before]
        if out != exp or out is P:
            ctx.violation('C06:make_cost_matrix:value', 'not the elementwise inversion',
                          {'matrix': before, 'got': out})
