"""
lib.py -- harness-side extensions of the library's documented extension points:

* Scripted / Recording sampling sets (VariableSamplingSet subclasses): the oracle knows every
  sampled value.
* TableGrader (ItemGrader subclass): table-driven item grader realising arbitrary credit
  matrices, with messages carrying unique ids.
* call(): one guarded grader call returning a normalised outcome.
"""
import warnings

from voluptuous import Schema, Required

from mitxgraders.baseclasses import ItemGrader
from mitxgraders.sampling import VariableSamplingSet
from mitxgraders.exceptions import MITxError, StudentFacingError, ConfigError


class Scripted(VariableSamplingSet):
    """Hands out a fixed list of values cyclically and records what it handed out."""
    schema_config = Schema({Required('values'): list})

    def __init__(self, config=None, **kwargs):
        super(Scripted, self).__init__(config, **kwargs)
        self.pos = 0
        self.handed = []

    def gen_sample(self):
        vals = self.config['values']
        v = vals[self.pos % len(vals)]
        self.pos += 1
        self.handed.append(v)
        return v

    def reset(self):
        self.pos = 0
        self.handed = []


class TableGrader(ItemGrader):
    """
    Table-driven item grader.  `table` maps (expect, input) -> credit in [0,1]; the message is
    '<tag>/A=<expect>/I=<input>' when `ids` is on (so every returned entry identifies the pair
    that produced it) and only when credit > 0 or `msg_on_zero`.
    Unknown pairs get credit 0.  Inputs are compared after strip().
    """

    @property
    def schema_config(self):
        schema = super(TableGrader, self).schema_config
        return schema.extend({
            Required('table', default={}): dict,
            Required('ids', default=True): bool,
            Required('tag', default='T'): str,
            Required('msg_on_zero', default=True): bool,
        })

    calls = 0

    def check_response(self, answer, student_input, **kwargs):
        TableGrader.calls += 1
        key = (answer['expect'].strip(), student_input.strip())
        credit = self.config['table'].get(key, 0)
        grade = credit * answer['grade_decimal']
        msg = ''
        if self.config['ids'] and (grade > 0 or self.config['msg_on_zero']):
            msg = '%s/A=%s/I=%s' % (self.config['tag'], answer['expect'].strip(), student_input.strip())
        if answer['msg'] and grade > 0:
            msg = (msg + '|' if msg else '') + answer['msg']
        return {'ok': self.grade_decimal_to_ok(grade), 'grade_decimal': grade, 'msg': msg}


class Outcome(object):
    """Normalised outcome of a call: returned value or raised exception (+ warnings)."""
    __slots__ = ('kind', 'value', 'exc', 'warnings')

    def __init__(self, kind, value=None, exc=None, warns=()):
        self.kind, self.value, self.exc, self.warnings = kind, value, exc, list(warns)

    @property
    def returned(self):
        return self.kind == 'ok'

    def brief(self):
        if self.kind == 'ok':
            return {'returned': self.value}
        if self.kind == 'hang':
            return {'hang': True}
        return {'raised': type(self.exc).__name__, 'msg': str(self.exc)[:300]}

    def same_as(self, other):
        if self.kind != other.kind:
            return False
        if self.kind == 'ok':
            return self.value == other.value
        if self.kind == 'exc':
            return type(self.exc) is type(other.exc) and str(self.exc) == str(other.exc)
        return True


def call(ctx, fn, *args, **kwargs):
    """Guarded call under the CPU watchdog, recording warnings."""
    with warnings.catch_warnings(record=True) as rec:
        warnings.simplefilter('always')
        status, out = ctx.timed(fn, *args, **kwargs)
    warns = [(w.category.__name__, str(w.message)[:200]) for w in rec]
    if status == 'ok':
        return Outcome('ok', value=out, warns=warns)
    if status == 'exc':
        return Outcome('exc', exc=out, warns=warns)
    return Outcome('hang', warns=warns)


def err_family(exc):
    """Coarse family of an exception, for class tables."""
    if isinstance(exc, ConfigError):
        return 'ConfigError'
    if isinstance(exc, StudentFacingError):
        return 'StudentFacing:' + type(exc).__name__
    if isinstance(exc, MITxError):
        return 'MITx:' + type(exc).__name__
    return 'FOREIGN:' + type(exc).__name__


def repo_tests_under_monitor(ctx, prop, kinds):
    """Supplementary workload (thorough tier, shard 0): the repository's own suite with vf.pytest_monitor installed."""
    import json
    import os
    import subprocess
    import sys
    import tempfile
    from vf import core
    if ctx.quick or ctx.shard != 0:
        return
    out = tempfile.NamedTemporaryFile(prefix='vfmon', suffix='.json', delete=False, dir=os.environ.get('VERIF_WORK_DIR') or os.path.join(core.VERIF_DIR, '.work'))
    out.close()
    env = dict(os.environ, PYTHONPATH=core.VERIF_DIR, VF_MONITOR_OUT=out.name)
    try:
        subprocess.run([sys.executable, '-m', 'pytest', '-q', '-p', 'no:cacheprovider', '-p', 'vf.pytest_monitor', '--timeout=900'],
                       cwd=core.REPO, env=env, stdout=subprocess.DEVNULL, stderr=subprocess.DEVNULL, timeout=1200)
        with open(out.name) as f:
            data = json.load(f)
    except Exception as exc:  # noqa
        ctx.note('repo_tests_under_monitor', 'not run: %r' % (exc,))
        return
    finally:
        try:
            os.unlink(out.name)
        except OSError:
            pass
    ctx.note('repo_tests_under_monitor', {k: v for k, v in data.items() if k != 'failures'})
    ctx.count('repo_tests_monitored', data.get('tests', 0))
    for k in kinds:
        ctx.count('repo_tests_%s_events' % k, data.get({'munkres': 'munkres', 'parse': 'parse', 'draw': 'draws', 'state': 'tests'}[k], 0))
    for f in data.get('failures', []):
        if f['kind'] in kinds:
            ctx.violation('%s:repo_tests:%s' % (prop, f['kind']), 'while running %s: %s' % (f.get('test'), f['msg']), f)


def strip_debug(msg):
    """A message without the debug log that debug=True appends (and without the separator before it)."""
    k = msg.find('<pre>MITx Grading Library')
    if k < 0:
        return msg
    head = msg[:k]
    while head.endswith('<br/>\n') or head.endswith('\n'):
        head = head[:-6] if head.endswith('<br/>\n') else head[:-1]
    return head


def reset_scripted(obj, depth=0, seen=None):
    """Rewind every Scripted sampling set reachable from a grader's configuration (they hand out their values in order and
    remember where they stopped: two graders compared call by call must start from the same place)."""
    if seen is None:
        seen = set()
    if depth > 8 or id(obj) in seen:
        return
    seen.add(id(obj))
    if isinstance(obj, Scripted):
        obj.reset()
        return
    if isinstance(obj, dict):
        for v in obj.values():
            reset_scripted(v, depth + 1, seen)
    elif isinstance(obj, (list, tuple)):
        for v in obj:
            reset_scripted(v, depth + 1, seen)
    elif hasattr(obj, 'config') and hasattr(obj, 'schema_config'):
        reset_scripted(obj.config, depth + 1, seen)
