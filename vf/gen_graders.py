"""
gen_graders.py -- generator of valid grader configurations of every public class, with nesting.

A generated case is a dict:
  desc     JSON-able description of the configuration (for witnesses / evidence)
  make     callable(**override) -> a FRESH grader built from the same specification
           (override: debug=..., attempt_based_credit=..., attempt_based_credit_msg=...)
  ninputs  number of input boxes (None for single-input graders)
  good     list of inputs that are fully right, `partial` partially right, `wrong` wrong
           (single strings, or lists of strings for multi-input graders)
  cls      class name
All random choices are made when the case is generated; make() is deterministic.

Canaries for debug-leak detection: author answers carry the literal 7.3141, scripted samplers
hand out 3.7281904.., an instructor-only variable is called secretvar.
"""
from vf import lib

CANARY_ANS = '7.3141'
CANARY_SAMPLE = 3.7281904
CANARY_VAR = 'secretvar'

import numpy as _np
# (credits close to 0 and 1, and numpy-typed credits, are numbers in [0, 1] like any other)
CREDITS = [0, 0.1, 1 / 3., 0.5, 0.7, 0.99, 1, 1, 1e-6, 0.99996, _np.float64(0.5), _np.float64(1.0), _np.float64(0.0)]
MSGS = ['', '', 'm', 'two\nlines', 'well done', 'use {braces} and {0}', '100% "quoted" \'text\' <b>x</b>', u'h\u00e9llo \u2713']


def _alt(rng, expect, credit=None, pin=False):
    d = {'expect': expect, 'grade_decimal': rng.choice(CREDITS) if credit is None else credit, 'msg': rng.choice(MSGS)}
    if pin and d['grade_decimal'] == 1 and rng.random() < 0.3:
        d['ok'] = rng.choice([True, False, 'partial'])
    elif d['grade_decimal'] != 1 and rng.random() < 0.2:
        # an explicit ok beside a credit other than 1 has no effect: ok follows the credit
        d['ok'] = rng.choice([True, False, 'partial'])
    return d


class Factory(object):
    def __init__(self, rng):
        self.rng = rng

    # ------------------------------------------------------------------ item graders
    def string(self):
        rng = self.rng
        words = rng.sample(['cat', 'dog', 'fish', 'Cat', 'two words', 'x-ray', 'élan'], 3)
        alts = [_alt(rng, words[0], 1, pin=True), _alt(rng, words[1]), _alt(rng, (words[2], words[2].upper()))]
        alts = alts[:rng.randint(1, 3)]
        cfg = {'case_sensitive': rng.random() < 0.5, 'wrong_msg': rng.choice(['', 'try again'])}
        mode = rng.choice(['plain', 'plain', 'accept_any', 'pattern'])
        if mode == 'accept_any':
            cfg.update({'accept_any': True, 'min_length': rng.choice([0, 3]), 'explain_minimums': rng.choice(['err', 'msg', None])})
            # usually no answers at all; sometimes an explicit (empty) answer that carries the credit and message to award
            alts = [] if rng.random() < 0.6 else [_alt(rng, '')]
        elif mode == 'pattern':
            cfg.update({'validation_pattern': r'[\w \-é]+', 'explain_validation': rng.choice(['err', 'msg', None])})

        def make(**ov):
            from mitxgraders import StringGrader
            c = dict(cfg)
            c.update(ov)
            if alts:
                c['answers'] = tuple(dict(a) for a in alts)
            return StringGrader(**c)
        return {'cls': 'StringGrader', 'desc': {'class': 'StringGrader', 'config': cfg, 'answers': alts}, 'make': make, 'ninputs': None,
                'good': [words[0]], 'partial': [words[1]], 'wrong': ['zebra', 'a!b'], 'needs_expect': not alts and mode != 'accept_any'}

    def numerical(self):
        rng = self.rng
        alts = [_alt(rng, CANARY_ANS, 1, pin=True), _alt(rng, '2*' + CANARY_ANS), _alt(rng, ('0', '1e-3'))][:rng.randint(1, 3)]
        cfg = {'tolerance': rng.choice(['5%', 0.01, '0.01%']), 'wrong_msg': rng.choice(['', 'no'])}
        comparer = rng.choice([None, None, 'between'])

        def make(**ov):
            from mitxgraders import NumericalGrader, between_comparer
            c = dict(cfg)
            c.update(ov)
            a = [dict(x) for x in alts]
            if comparer == 'between':
                a = [{'expect': {'comparer': between_comparer, 'comparer_params': ['7', '8']}, 'grade_decimal': alts[0]['grade_decimal'],
                      'msg': alts[0]['msg']}] + a[1:]
            return NumericalGrader(answers=tuple(a), **c)
        return {'cls': 'NumericalGrader', 'desc': {'class': 'NumericalGrader', 'config': cfg, 'answers': alts, 'comparer': comparer},
                'make': make, 'ninputs': None, 'good': [CANARY_ANS, '7.3141+0'], 'partial': ['2*' + CANARY_ANS], 'wrong': ['99', '-1', 'pi']}

    def formula(self, matrix=False):
        rng = self.rng
        comparer = rng.choice([None, None, None, 'linear', 'congruence']) if not matrix else rng.choice([None, None, 'entry_flat', 'entry_prop', 'linear'])
        samples = rng.choice([1, 2, 3, 5])
        if comparer == 'linear':
            samples = max(samples, 3)
        failable = rng.choice([0, 0, 1])
        if matrix:
            base = '[x+%s, 2, x*y]' % CANARY_ANS
            good, partial_in, wrong = [base, '[x+%s,2,y*x]' % CANARY_ANS], ['[x+%s, 2, 0]' % CANARY_ANS], ['[1,2,3]', '[x,y]', '5']
        else:
            base = 'x^2+%s*y' % CANARY_ANS
            good, partial_in, wrong = [base, '%s*y+x*x' % CANARY_ANS], ['2*(%s)' % base], ['x+y', '0', 'x^3']
        alts = [_alt(rng, base, rng.choice([1, 1, 0.5, 0]), pin=True)]
        if rng.random() < 0.6:
            alts.append(_alt(rng, '2*(%s)' % base))
        cfg = {'variables': ['x', 'y', CANARY_VAR], 'instructor_vars': [CANARY_VAR], 'samples': samples, 'failable_evals': failable,
               'tolerance': rng.choice(['0.01%', 1e-6, '1%']), 'wrong_msg': rng.choice(['', 'nope']),
               'blacklist': rng.choice([[], [], ['tan']]), 'metric_suffixes': rng.random() < 0.2}
        extra = {}
        if matrix:
            extra = {'max_array_dim': rng.choice([1, 2]), 'shape_errors': rng.random() < 0.7,
                     'suppress_matrix_messages': rng.random() < 0.2, 'negative_powers': rng.random() < 0.8,
                     'answer_shape_mismatch': {'is_raised': rng.random() < 0.5, 'msg_detail': rng.choice([None, 'type', 'shape'])}}
        cred = rng.choice([0, 0.3, 1])

        def make(**ov):
            import mitxgraders as M
            c = dict(cfg)
            c.update(extra)
            c.update(ov)
            c['sample_from'] = {'x': lib.Scripted(values=[CANARY_SAMPLE, 2.5, 1.25, 4.75, 3.5][:samples]),
                                'y': lib.Scripted(values=[1.5, 2.25, 3.75, 0.5, 4.0][:samples]),
                                CANARY_VAR: [2, 3]}
            a = [dict(x) for x in alts]
            if comparer == 'linear':
                a[0]['expect'] = {'comparer': M.LinearComparer(proportional=0.5, offset=0.25), 'comparer_params': [base]}
            elif comparer == 'congruence':
                a[0]['expect'] = {'comparer': M.congruence_comparer, 'comparer_params': [base, '2*pi']}
            elif comparer == 'entry_flat':
                c['entry_partial_credit'] = cred
            elif comparer == 'entry_prop':
                c['entry_partial_credit'] = 'proportional'
            cls = M.MatrixGrader if matrix else M.FormulaGrader
            return cls(answers=tuple(a), **c)
        name = 'MatrixGrader' if matrix else 'FormulaGrader'
        return {'cls': name, 'desc': {'class': name, 'config': dict(cfg, **extra), 'answers': alts, 'comparer': comparer,
                                      'entry_partial_credit': cred if comparer == 'entry_flat' else None},
                'make': make, 'ninputs': None, 'good': good, 'partial': partial_in, 'wrong': wrong}

    def singlelist(self, depth=1):
        rng = self.rng
        sub = self.string() if rng.random() < 0.6 or depth > 1 else self.numerical()
        nested = depth == 1 and rng.random() < 0.25
        cfg = {'ordered': rng.random() < 0.5, 'partial_credit': rng.random() < 0.7, 'length_error': rng.random() < 0.2,
               'missing_error': rng.random() < 0.5, 'delimiter': rng.choice([',', ';']), 'wrong_msg': rng.choice(['', 'bad list'])}
        if sub['cls'] == 'StringGrader':
            items = ['cat', 'dog', 'fish']
            goodsub = ['cat', 'dog', 'fish']
        else:
            items = ['1', '2', CANARY_ANS]
            goodsub = ['1', '2', CANARY_ANS]
        credit = rng.choice([1, 1, 0.5])
        msg = rng.choice(MSGS)
        d = cfg['delimiter']
        if nested:
            inner_d = ',' if d == ';' else ';'
            answers = {'expect': [['cat', 'dog'], ['fish', 'bird']], 'grade_decimal': credit, 'msg': msg}

            def make(**ov):
                from mitxgraders import SingleListGrader, StringGrader
                c = dict(cfg)
                c.update(ov)
                inner = SingleListGrader(subgrader=StringGrader(), delimiter=inner_d, missing_error=c['missing_error'])
                return SingleListGrader(answers=dict(answers), subgrader=inner, **c)
            good = [('cat%sdog%sfish%sbird' % (inner_d, d, inner_d))]
            partial_in = [('cat%sdog%sfish%szzz' % (inner_d, d, inner_d))]
            wrong = ['zzz', 'a%sb%sc' % (d, d)]
            desc = {'class': 'SingleListGrader', 'nested': True, 'config': cfg, 'answers': answers}
        else:
            answers = ({'expect': list(items), 'grade_decimal': credit, 'msg': msg},
                       {'expect': list(reversed(items)), 'grade_decimal': rng.choice(CREDITS), 'msg': rng.choice(MSGS)})

            def make(**ov):
                from mitxgraders import SingleListGrader, StringGrader, NumericalGrader
                c = dict(cfg)
                c.update(ov)
                sg = StringGrader() if sub['cls'] == 'StringGrader' else NumericalGrader()
                return SingleListGrader(answers=tuple(dict(a) for a in answers), subgrader=sg, **c)
            good = [d.join(goodsub), (d + ' ').join(goodsub)]
            partial_in = [d.join(goodsub[:2]), d.join(goodsub + ['extra' if sub['cls'] == 'StringGrader' else '9'])]
            wrong = ['zzz' if sub['cls'] == 'StringGrader' else '77', d.join(['q', 'r', 's']) if sub['cls'] == 'StringGrader' else d.join(['7', '8', '9'])]
            desc = {'class': 'SingleListGrader', 'nested': False, 'config': cfg, 'answers': answers, 'subgrader': sub['cls']}
        return {'cls': 'SingleListGrader', 'desc': desc, 'make': make, 'ninputs': None, 'good': good, 'partial': partial_in,
                'wrong': wrong + [d, 'a' + d + d + 'b', '']}

    def interval(self):
        rng = self.rng
        cfg = {'partial_credit': rng.random() < 0.7, 'wrong_msg': rng.choice(['', 'bad interval'])}
        if rng.random() < 0.3:
            cfg.update(opening_brackets='([{', closing_brackets=')]}')      # the documented example with braces
        answers = rng.choice(['[1, %s)' % CANARY_ANS, {'expect': ['(', '1', CANARY_ANS, ']'], 'grade_decimal': 0.5, 'msg': 'half'},
                              ({'expect': '[1,%s]' % CANARY_ANS}, {'expect': '(0,2)', 'grade_decimal': 0.3})])

        def make(**ov):
            from mitxgraders import IntervalGrader
            c = dict(cfg)
            c.update(ov)
            a = answers if not isinstance(answers, tuple) else tuple(dict(x) for x in answers)
            if isinstance(a, dict):
                a = dict(a, expect=list(a['expect']))
            return IntervalGrader(answers=a, **c)
        return {'cls': 'IntervalGrader', 'desc': {'class': 'IntervalGrader', 'config': cfg, 'answers': answers}, 'make': make, 'ninputs': None,
                'good': ['[1, %s)' % CANARY_ANS, '(1,%s]' % CANARY_ANS, '[1,%s]' % CANARY_ANS], 'partial': ['[1, 9)', '(0,2)', '(1,%s)' % CANARY_ANS],
                'wrong': ['[5,6]', '(0, 1)', '[1,2', '1,2', '[]', '[1,2,3]', '{1,2}', '<1,2]', '[1,2>', '{5,6)']}

    def sumgrader(self):
        rng = self.rng
        keys = rng.choice([['lower', 'upper', 'summand', 'summation_variable'], ['summand'], ['lower', 'upper'], ['summand', 'summation_variable']])
        positions = {k: i + 1 for i, k in enumerate(keys)}
        ans = {'lower': '1', 'upper': '6', 'summand': 'n^2+%s*x' % CANARY_ANS, 'summation_variable': 'n'}
        cfg = {'even_odd': rng.choice([0, 0, 1, 2]), 'samples': 2, 'tolerance': 1e-9, 'variables': ['x']}

        def make(**ov):
            from mitxgraders import SumGrader
            c = dict(cfg)
            c.update(ov)
            c['sample_from'] = {'x': lib.Scripted(values=[CANARY_SAMPLE, 2.5])}
            return SumGrader(answers=dict(ans), input_positions=dict(positions), **c)
        good = [[ans[k] for k in keys]]
        w = dict(ans, summand='n^3', upper='7', lower='2', summation_variable='m')
        wrong = [[w[k] if k in ('summand', 'upper', 'lower') else ans[k] for k in keys]]
        if len(keys) == 1:
            good = [good[0][0], list(good[0])]
            wrong = [wrong[0][0]]
        return {'cls': 'SumGrader', 'desc': {'class': 'SumGrader', 'config': cfg, 'answers': ans, 'input_positions': positions},
                'make': make, 'ninputs': len(keys), 'good': good, 'partial': [], 'wrong': wrong, 'short_form': True}

    def item(self, depth=1):
        kind = self.rng.choice(['string', 'string', 'numerical', 'formula', 'matrix', 'singlelist', 'interval'])
        return {'string': self.string, 'numerical': self.numerical, 'formula': self.formula,
                'matrix': lambda: self.formula(matrix=True), 'singlelist': lambda: self.singlelist(depth),
                'interval': self.interval}[kind]()

    # ------------------------------------------------------------------ list graders
    def listgrader(self, depth=1):
        rng = self.rng
        mode = rng.choice(['flat', 'flat', 'subgrader_list', 'grouped', 'multi_answers', 'siblings', 'mixed_items', 'item_kind', 'deep_nesting'])
        cfg = {'partial_credit': rng.random() < 0.7}
        if mode in ('flat', 'multi_answers'):
            n = rng.randint(2, 4)
            sub = rng.choice([self.string, self.numerical])()
            ordered = rng.random() < 0.5
            toks = ['cat', 'dog', 'fish', 'bird'] if sub['cls'] == 'StringGrader' else ['1', '2', '3', CANARY_ANS]
            answers = [(t, {'expect': t.upper() if sub['cls'] == 'StringGrader' else t + '+10', 'grade_decimal': rng.choice(CREDITS), 'msg': rng.choice(MSGS)})
                       if rng.random() < 0.4 else t for t in toks[:n]]
            all_answers = [answers]
            if mode == 'multi_answers':
                all_answers.append(list(reversed(toks[:n])))

            def make(**ov):
                import mitxgraders as M
                c = dict(cfg)
                c.update(ov)
                sg = M.StringGrader(wrong_msg='w') if sub['cls'] == 'StringGrader' else M.NumericalGrader()
                a = [list(x) for x in all_answers]
                return M.ListGrader(answers=a[0] if len(a) == 1 else tuple(a), subgraders=sg, ordered=ordered, **c)
            good = [toks[:n], list(reversed(toks[:n]))]
            partial_in = [toks[:n - 1] + ['zzz' if sub['cls'] == 'StringGrader' else '77']]
            wrong = [['zzz' if sub['cls'] == 'StringGrader' else '77'] * n]
            desc = {'class': 'ListGrader', 'mode': mode, 'ordered': ordered, 'config': cfg, 'answers': all_answers, 'subgrader': sub['cls']}
            return {'cls': 'ListGrader', 'desc': desc, 'make': make, 'ninputs': n, 'good': good, 'partial': partial_in, 'wrong': wrong}
        if mode == 'siblings':
            # ordered list whose answers refer to other inputs through sibling variables (one shared FormulaGrader)
            form = rng.choice(['forward', 'backward'])
            if form == 'forward':
                answers = ['x+1', 'sibling_1^2', 'sibling_1+sibling_2']
                good = [['x+1', '(x+1)^2', 'x+1+(x+1)^2'], ['2*x', '4*x^2', '2*x+4*x^2']]
                partial_in = [['x+1', '(x+1)^2', 'x'], ['x+1', 'x^2', 'x+1+x^2']]
            else:
                answers = ['sibling_2+sibling_3', 'x', '2*x']
                good = [['3*x', 'x', '2*x']]
                partial_in = [['3*x', 'x', 'x'], ['x', 'x', '2*x']]

            def make(**ov):
                import mitxgraders as M
                c = dict(cfg)
                c.update(ov)
                return M.ListGrader(answers=list(answers), subgraders=M.FormulaGrader(variables=['x']), ordered=True, **c)
            desc = {'class': 'ListGrader', 'mode': 'siblings', 'config': cfg, 'answers': answers}
            return {'cls': 'ListGrader', 'desc': desc, 'make': make, 'ninputs': 3, 'good': good, 'partial': partial_in,
                    'wrong': [['1', '2', '3'], ['x', 'q', '2*x'], ['3*x', 'x+', '2*x'], ['sibling_2', 'x', 'x']]}
        if mode == 'deep_nesting':
            # grouped list -> inner list -> delimited list -> delimited list of formulas (four levels)
            ordered = rng.random() < 0.5
            inner_ordered = rng.random() < 0.5

            def make(**ov):
                import mitxgraders as M
                c = dict(cfg)
                c.update(ov)
                leaf = M.SingleListGrader(subgrader=M.FormulaGrader(variables=['x']), delimiter=',', ordered=False)
                mid = M.SingleListGrader(subgrader=leaf, delimiter=';', ordered=True)
                inner = M.ListGrader(subgraders=mid, ordered=inner_ordered)
                return M.ListGrader(answers=[[[['x', '2*x'], ['1']], [['x^2'], ['3', 'x']]], [[['0']], [['x+1', 'x+2'], ['5']]]],
                                    subgraders=inner, ordered=ordered, grouping=[1, 1, 2, 2], **c)
            desc = {'class': 'ListGrader', 'mode': mode, 'ordered': ordered, 'inner_ordered': inner_ordered, 'config': cfg,
                    'levels': 'ListGrader(grouping) > ListGrader > SingleListGrader(;) > SingleListGrader(,) > FormulaGrader'}
            good_in = ['x, 2*x; 1', 'x^2; 3, x', '0', 'x+1, x+2; 5']
            return {'cls': 'ListGrader', 'desc': desc, 'make': make, 'ninputs': 4,
                    'good': [good_in, ['2*x, x; 1', 'x*x; x, 3', '0', 'x+2, x+1; 5']],
                    'partial': [['x, 2*x; 1', 'x^2; 3', '0', 'x+1; 5'], ['x; 1', 'x^2; 3, x', '1', 'x+1, x+2; 5']],
                    'wrong': [['1', '2', '3', '4'], ['x,, 2*x; 1', 'x^2; 3, x', '0', 'x+1, x+2; 5'], ['x, 2*x; ; 1', '', '0', ';']]}
        if mode == 'mixed_items':
            # one item grader of every other kind side by side in an ordered list
            def make(**ov):
                import mitxgraders as M
                c = dict(cfg)
                c.update(ov)
                return M.ListGrader(answers=['[1,2]', '[1,2)', 'a_{1}+x', '1, 2', ({'expect': 'cat', 'msg': 'use {braces}'}, 'dog')],
                                    subgraders=[M.MatrixGrader(max_array_dim=1), M.IntervalGrader(),
                                                M.FormulaGrader(variables=['x'], numbered_vars=['a']),
                                                M.SingleListGrader(subgrader=M.NumericalGrader(), ordered=True), M.StringGrader(case_sensitive=False)],
                                    ordered=True, **c)
            desc = {'class': 'ListGrader', 'mode': mode, 'config': cfg,
                    'subgraders': ['MatrixGrader', 'IntervalGrader', 'FormulaGrader(numbered)', 'SingleListGrader(Numerical)', 'StringGrader']}
            return {'cls': 'ListGrader', 'desc': desc, 'make': make, 'ninputs': 5,
                    'good': [['[1,2]', '[1,2)', 'x+a_{1}', '1,2', 'CAT'], ['[2,4]/2', '[1, 4/2)', 'a_{1}+x+0', '1, 1+1', 'dog']],
                    'partial': [['[1,2]', '(1,2)', 'x', '1', 'bird'], ['[1,3]', '[1,2]', 'a_{2}+x', '2,1', 'cat']],
                    'wrong': [['[1,2,3]', '[1,2', 'a_{1}+', '1,,2', ''], ['1', '1,2', 'y', 'a,b', '{}']]}
        if mode == 'item_kind':
            # unordered list over one non-trivial item grader kind
            kind = rng.choice(['interval', 'matrix', 'singlelist_formula'])
            toks = {'interval': ['[1,2]', '(0,1)', '[3,4)'], 'matrix': ['[1,2]', '[3,4]', '[0,1]'],
                    'singlelist_formula': ['x, 2*x', 'x^2, 1', '3, x']}[kind]
            ordered = rng.random() < 0.4

            def make(**ov):
                import mitxgraders as M
                c = dict(cfg)
                c.update(ov)
                sg = {'interval': lambda: M.IntervalGrader(), 'matrix': lambda: M.MatrixGrader(max_array_dim=1, entry_partial_credit='proportional'),
                      'singlelist_formula': lambda: M.SingleListGrader(subgrader=M.FormulaGrader(variables=['x']))}[kind]()
                return M.ListGrader(answers=list(toks), subgraders=sg, ordered=ordered, **c)
            desc = {'class': 'ListGrader', 'mode': mode, 'item_kind': kind, 'ordered': ordered, 'config': cfg, 'answers': toks}
            bad = {'interval': '[9,9]', 'matrix': '[9,9]', 'singlelist_formula': 'x, 9'}[kind]
            return {'cls': 'ListGrader', 'desc': desc, 'make': make, 'ninputs': 3, 'good': [list(toks), list(reversed(toks))],
                    'partial': [[toks[0], bad, toks[2]], [toks[1], toks[0], bad]], 'wrong': [[bad, bad, bad], ['', toks[1], '[1,2'], [toks[0], 'x,,y', '[1;2]']]}
        if mode == 'subgrader_list':
            def make(**ov):
                import mitxgraders as M
                c = dict(cfg)
                c.update(ov)
                return M.ListGrader(answers=['cat', CANARY_ANS, 'a,b'],
                                    subgraders=[M.StringGrader(), M.NumericalGrader(), M.SingleListGrader(subgrader=M.StringGrader())],
                                    ordered=True, **c)
            desc = {'class': 'ListGrader', 'mode': mode, 'config': cfg, 'answers': ['cat', CANARY_ANS, 'a,b']}
            return {'cls': 'ListGrader', 'desc': desc, 'make': make, 'ninputs': 3, 'good': [['cat', CANARY_ANS, 'b,a']],
                    'partial': [['cat', '0', 'a']], 'wrong': [['x', '1', 'q']]}
        # grouped
        ordered = rng.random() < 0.5
        inner_ordered = rng.random() < 0.5
        grouping = rng.choice([[1, 1, 2, 2], [1, 2, 1, 2], [2, 1, 1, 2]])

        def make(**ov):
            import mitxgraders as M
            c = dict(cfg)
            c.update(ov)
            inner = M.ListGrader(subgraders=M.StringGrader(), ordered=inner_ordered)
            return M.ListGrader(answers=[['cat', 'dog'], ['fish', 'bird']], subgraders=inner, ordered=ordered, grouping=list(grouping), **c)
        pos = {1: [i for i, g in enumerate(grouping) if g == 1], 2: [i for i, g in enumerate(grouping) if g == 2]}
        good_in = [None] * 4
        good_in[pos[1][0]], good_in[pos[1][1]], good_in[pos[2][0]], good_in[pos[2][1]] = 'cat', 'dog', 'fish', 'bird'
        part = list(good_in)
        part[0] = 'zzz'
        desc = {'class': 'ListGrader', 'mode': 'grouped', 'ordered': ordered, 'inner_ordered': inner_ordered, 'grouping': grouping, 'config': cfg}
        return {'cls': 'ListGrader', 'desc': desc, 'make': make, 'ninputs': 4, 'good': [good_in], 'partial': [part], 'wrong': [['q', 'r', 's', 't']]}

    def random_config(self):
        """
        An item grader with SEVERAL options drawn at once from the in-domain pools of the C20 option table (the table
        transcribed from the documentation).  Combinations the constructor refuses are skipped by the caller
        (make() raises).  What the options do to the verdict is not predicted here: only the universal laws apply.
        """
        from vf.props import c20
        rng = self.rng
        table = c20.spec_table()
        name = rng.choice(['StringGrader', 'FormulaGrader', 'NumericalGrader', 'MatrixGrader', 'SingleListGrader', 'IntervalGrader'])
        spec = table[name]
        skip = {'debug', 'attempt_based_credit', 'attempt_based_credit_msg', 'answers', 'subgrader', 'sample_from', 'variables', 'numbered_vars'}
        opts = [o for o in spec['options'] if o not in skip]
        chosen = {}
        for o in rng.sample(opts, min(len(opts), rng.randint(2, 5))):
            pool = spec['options'][o][1][0]
            if pool:
                chosen[o] = rng.choice(pool)
        base = {'StringGrader': dict(answers=({'expect': 'cat', 'msg': 'use {braces}'}, {'expect': 'two words', 'grade_decimal': 0.5})),
                'FormulaGrader': dict(answers=('x^2+1', {'expect': '2*x', 'grade_decimal': 0.5, 'msg': '50% {x}'}), variables=['x']),
                'NumericalGrader': dict(answers=('3.5', {'expect': '7', 'grade_decimal': 0.25})),
                'MatrixGrader': dict(answers='[x, 2*x]', variables=['x']),
                'SingleListGrader': dict(answers=(['cat', 'dog'], {'expect': ['a', 'b'], 'grade_decimal': 0.5, 'msg': 'alt'})),
                'IntervalGrader': dict(answers='[1, 2)')}[name]
        inputs = {'StringGrader': (['cat', ' cat '], ['two words', 'TWO  WORDS'], ['dog', 'c at', '']),
                  'FormulaGrader': (['x^2+1', '1+x*x'], ['2*x', 'x+x'], ['x', 'x^2+1k', 'sin(x)', '2x']),
                  'NumericalGrader': (['3.5', '7/2'], ['7'], ['9', '3.5k', 'sqrt(-1)']),
                  'MatrixGrader': (['[x, 2*x]', 'x*[1,2]'], ['[x, 0]'], ['x', '[x,2*x,0]', '[[x,2*x]]', '1/[x,2*x]']),
                  'SingleListGrader': (['cat, dog', 'dog,cat'], ['a, b', 'cat'], ['x', 'cat,,dog', 'cat;dog', '']),
                  'IntervalGrader': (['[1, 2)', '[1,4/2)'], ['(1,2)', '[1,3)'], ['[1', '1,2', '{1,2}', '[1;2)'])}[name]
        delim = chosen.get('delimiter', ',') if name in ('SingleListGrader', 'IntervalGrader') else None
        if delim not in (None, ','):
            inputs = tuple([x.replace(',', delim) for x in grp] for grp in inputs)
            if name == 'IntervalGrader':
                base = dict(answers='[1%s 2)' % delim)

        def make(**ov):
            import mitxgraders as M
            c = dict(base)
            c.update(chosen)
            c.update(ov)
            if name == 'SingleListGrader':
                c['subgrader'] = M.StringGrader()
            if name in ('FormulaGrader', 'MatrixGrader') and 'sample_from' not in c:
                c['sample_from'] = {'x': lib.Scripted(values=[CANARY_SAMPLE, 2.5, 1.25])}
            return getattr(M, name)(**c)
        return {'cls': name, 'desc': {'class': name, 'options_drawn_together': chosen, 'answers': base['answers']}, 'make': make, 'ninputs': None,
                'good': list(inputs[0]), 'partial': list(inputs[1]), 'wrong': list(inputs[2]), 'random_config': True}

    def any(self):
        r = self.rng.random()
        if r < 0.55:
            return self.item()
        if r < 0.65:
            return self.sumgrader()
        return self.listgrader()


GARBAGE = ['', ' ', '\t', '\n', 'ΩΩΩ', '😀', '١٢٣', '２＋２', 'x' * 300, '(' * 60 + '1' + ')' * 60, '1/0', '10^400', ',,,', ';', '[', ']', '{}',
           'sin(', '1+*2', '\x00', '\x0b', 'a\nb', '—', '−1', '3×4', '%', '1e', 'nan', 'inf', 'None', "'", '"', '\\', '<b>x</b>', '&lt;',
           'x y', '0x10', '1_000', '1,5', '[1,2', 'cat' * 50, ' , ', '[,)', '(1,2', '1;2;3', 'True']
