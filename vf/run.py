"""
run.py -- launcher of a check.

  python -m vf.run C07 --tier quick          (cwd = /verif)
  python -m vf.run C07 --replay replays/C07/<hash>.json

Exit codes: 0 held on everything explored (KNOWN-FINDING lines allowed),
            1 violation (a `VIOLATION property=<id> replay=<path>` line per mechanism),
            2 inconclusive (a deciding monitor was not reached / worker died / watchdog).
"""
import argparse
import importlib
import json
import os
import shutil
import subprocess
import sys
import time
from collections import Counter

from vf import core

WALL_LIMIT = {'quick': 900, 'thorough': 5400}


def load_known():
    path = os.path.join(core.VERIF_DIR, 'known_findings.json')
    if not os.path.exists(path):
        return []
    with open(path) as f:
        return json.load(f).get('findings', [])


def merge(results):
    out = {'evaluations': 0, 'distinct': set(), 'counters': Counter(), 'samples': [],
           'violations': [], 'viol_keys': Counter(), 'notes': {}, 'exhaustive': {},
           'max_cpu': 0.0, 'inconclusive': [], 'shard_wall': []}
    for r in results:
        out['evaluations'] += r['evaluations']
        out['distinct'].update(r['distinct'])
        out['counters'].update(r['counters'])
        if len(out['samples']) < 8:
            out['samples'].extend(r['samples'][:2])
        out['violations'].extend(r['violations'])
        out['viol_keys'].update(r['viol_keys'])
        out['notes'].update(r['notes'])
        for k, v in r['exhaustive'].items():
            d = out['exhaustive'].setdefault(k, {'size': 0, 'complete': True})
            d['size'] += v['size']
            d['complete'] = d['complete'] and v['complete']
        out['max_cpu'] = max(out['max_cpu'], r['max_cpu'])
        out['inconclusive'].extend(r['inconclusive'])
        out['shard_wall'].append(round(r.get('wall_s', 0), 2))
    return out


def run_workers(prop, tier, seed, nshards):
    work = os.path.join(os.environ.get('VERIF_WORK_DIR') or os.path.join(core.VERIF_DIR, '.work'), prop)
    shutil.rmtree(work, ignore_errors=True)
    os.makedirs(work)
    env = dict(os.environ)
    env['PYTHONHASHSEED'] = '0'
    env['PYTHONPATH'] = core.VERIF_DIR + os.pathsep + env.get('PYTHONPATH', '')
    env.setdefault('OMP_NUM_THREADS', '1')
    env.setdefault('OPENBLAS_NUM_THREADS', '1')
    env.setdefault('MKL_NUM_THREADS', '1')
    procs = []
    for shard in range(nshards):
        out = os.path.join(work, 'shard%02d.json' % shard)
        log = open(os.path.join(work, 'shard%02d.log' % shard), 'w')
        p = subprocess.Popen([sys.executable, '-m', 'vf.worker', prop, tier, str(seed),
                              str(shard), str(nshards), out],
                             cwd=core.VERIF_DIR, env=env, stdout=log, stderr=subprocess.STDOUT)
        procs.append((shard, p, out, log))
    deadline = time.time() + WALL_LIMIT[tier]
    results, problems = [], []
    for shard, p, out, log in procs:
        try:
            p.wait(timeout=max(1, deadline - time.time()))
        except subprocess.TimeoutExpired:
            p.kill()
            p.wait()
            problems.append('shard %d exceeded the wall-clock watchdog' % shard)
        log.close()
        if os.path.exists(out):
            with open(out) as f:
                r = json.load(f)
            if r.get('status') == 'done':
                results.append(r)
            else:
                problems.append('shard %d crashed in the harness: %s\n%s' % (
                    shard, r.get('error'), r.get('traceback', '')))
        else:
            # no final result: keep whatever violations the shard had already persisted
            part = out + '.partial'
            if os.path.exists(part):
                try:
                    with open(part) as f:
                        r = json.load(f)
                    r['wall_s'] = 0
                    results.append(r)
                    problems.append('shard %d did not finish; its violations recorded so far are reported' % shard)
                except (OSError, ValueError):
                    pass
        if not os.path.exists(out) and not any(('shard %d ' % shard) in pr for pr in problems):
            tail = ''
            try:
                with open(os.path.join(work, 'shard%02d.log' % shard)) as f:
                    tail = f.read()[-1500:]
            except OSError:
                pass
            problems.append('shard %d died without a result (rc=%s): %s' % (shard, p.returncode, tail))
    return results, problems


def write_replay(prop, tier, seed, v):
    d = os.path.join(os.environ.get('VERIF_REPLAY_DIR') or os.path.join(core.VERIF_DIR, 'replays'), prop)
    os.makedirs(d, exist_ok=True)
    name = core.digest([v['key'], v['witness']]) + '.json'
    path = os.path.join(d, name)
    with open(path, 'w') as f:
        json.dump({'property': prop, 'tier': tier, 'seed': seed, 'shard': v['shard'],
                   'nshards': v['nshards'], 'key': v['key'], 'msg': v['msg'],
                   'witness': v['witness'],
                   'how': 'python -m vf.run %s --replay %s  (re-runs the deterministic shard '
                          'that produced it and reports whether the same mechanism key fires)'
                          % (prop, os.path.relpath(path, core.VERIF_DIR))}, f, indent=1)
    return path


def do_replay(path):
    with open(path) as f:
        rp = json.load(f)
    from vf import worker
    res = worker.run_shard(rp['property'], rp['tier'], rp['seed'], rp['shard'], rp['nshards'])
    hit = [v for v in res['violations'] if v['key'] == rp['key']]
    if rp['key'] in res['viol_keys']:
        print('VIOLATION property=%s replay=%s' % (rp['property'], path))
        for v in hit[:1]:
            print(json.dumps(v, indent=1)[:3000])
        return 1
    print('replay: mechanism %s did not fire' % rp['key'])
    return 0


def main(argv=None):
    ap = argparse.ArgumentParser()
    ap.add_argument('prop')
    ap.add_argument('--tier', default=os.environ.get('VERIF_TIER', 'quick'),
                    choices=['quick', 'thorough'])
    ap.add_argument('--replay')
    ap.add_argument('--shards', type=int, default=None)
    args = ap.parse_args(argv)
    prop = args.prop.upper()
    core.setup_repo_path()
    if args.replay:
        return do_replay(args.replay)

    seed = int(os.environ.get('VERIF_SEED', '0') or 0)
    tier = args.tier
    t0 = time.time()
    mod = importlib.import_module('vf.props.%s' % prop.lower())
    nshards = args.shards or getattr(mod, 'SHARDS', {}).get(tier) or min(16, os.cpu_count() or 4)
    results, problems = run_workers(prop, tier, seed, nshards)
    m = merge(results)
    problems.extend(m['inconclusive'])

    # observation gates: a silent workload is inconclusive, never "held"
    gates = mod.gates(tier) if hasattr(mod, 'gates') else {}
    for name, minimum in gates.items():
        got = m['evaluations'] if name == 'evaluations' else m['counters'].get(name, 0)
        if got < minimum:
            problems.append('gate %s: observed %d < required %d' % (name, got, minimum))

    # classify violations by mechanism key
    known = [k for k in load_known() if k.get('property') == prop]
    open_keys = {k['key']: k for k in known if k.get('status') == 'open'}
    new, shown_known = [], set()
    seen = set()
    for v in m['violations']:
        if v['key'] in open_keys:
            shown_known.add(v['key'])
        elif v['key'] not in seen:
            seen.add(v['key'])
            new.append(v)
    for key in sorted(shown_known):
        print('KNOWN-FINDING: property=%s %s -- %s (seen %d times this run)' % (
            prop, key, open_keys[key].get('what', ''), m['viol_keys'][key]))
    replay_paths = []
    for v in new:
        path = write_replay(prop, tier, seed, v)
        replay_paths.append(path)
        print('VIOLATION property=%s replay=%s' % (prop, path))
        print('  mechanism=%s seen=%d: %s' % (v['key'], m['viol_keys'][v['key']], v['msg'][:600]))

    n_new = sum(c for k, c in m['viol_keys'].items() if k not in open_keys)
    wall = time.time() - t0
    evidence = {
        'property_id': prop, 'tier': tier, 'seed': seed, 'level': 'exploration',
        'coverage': {
            'evaluations': m['evaluations'],
            'distinct_nontrivial': len(m['distinct']),
            'rule': getattr(mod, 'RULE', ''),
            'samples': m['samples'][:8] or ['(no sample recorded)'],
            'exhaustive': bool(m['exhaustive']) and all(v['complete'] for v in m['exhaustive'].values())
                          and bool(getattr(mod, 'ALL_EXHAUSTIVE', False)),
            'exhaustive_subspaces': m['exhaustive'],
            'observed': dict(sorted(m['counters'].items())),
            'gates': gates,
            'notes': m['notes'],
            'max_cpu_s_single_call': round(m['max_cpu'], 3),
            'shards': nshards, 'shard_wall_s': m['shard_wall'],
            'violation_mechanisms': dict(m['viol_keys']),
            'known_findings_seen': sorted(shown_known),
            'verdict': 'violated' if new else ('inconclusive' if problems else 'held on what was observed'),
            'inconclusive_reasons': [pr[:400] for pr in problems[:10]],
            'repo': core.REPO,
        },
        'assumptions': getattr(mod, 'ASSUMPTIONS', []),
        'wall_s': round(wall, 2),
        'violations': int(n_new),
    }
    evdir = os.environ.get('VERIF_EVIDENCE_DIR') or os.path.join(core.VERIF_DIR, 'evidence')
    os.makedirs(evdir, exist_ok=True)
    with open(os.path.join(evdir, '%s.json' % prop), 'w') as f:
        json.dump(evidence, f, indent=1, sort_keys=True)

    print('%s %s seed=%d: %d evaluations, %d distinct non-trivial, %d mechanisms violated '
          '(%d known), %.1fs' % (prop, tier, seed, m['evaluations'], len(m['distinct']),
                                 len(m['viol_keys']), len(shown_known), wall))
    if new:
        return 1
    if problems:
        shown = set()
        for pr in problems:
            sig = ''.join(ch for ch in pr[:200] if not ch.isdigit())
            if sig in shown or len(shown) >= 4:
                continue
            shown.add(sig)
            print('INCONCLUSIVE property=%s reason=%s' % (prop, pr[:500].replace('\n', ' | ')))
        return 2
    return 0


if __name__ == '__main__':
    sys.exit(main())
