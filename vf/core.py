"""
core.py -- shared plumbing for the runtime-monitoring harness.

A *check* = `python -m vf.run <ID> --tier quick|thorough`:
  launcher (run.py) -> N shard workers (worker.py, one process each) -> merge ->
  evidence/<ID>.json + VIOLATION / KNOWN-FINDING / INCONCLUSIVE lines + exit code.

Everything a property module needs is on the `Ctx` object handed to its `run(ctx)`.
"""
import hashlib
import json
import os
import random
import signal
import sys
import time
from collections import Counter
from contextlib import contextmanager

VERIF_DIR = os.path.dirname(os.path.dirname(os.path.abspath(__file__)))
REPO = os.environ.get('VERIF_REPO', '/repo')


def setup_repo_path():
    """Put the repository's *current working tree* first on sys.path (nothing to build)."""
    if REPO not in sys.path:
        sys.path.insert(0, REPO)
    # make sure a stale install can never shadow the working tree
    import importlib
    m = importlib.import_module('mitxgraders')
    where = os.path.dirname(os.path.dirname(os.path.abspath(m.__file__)))
    if os.path.realpath(where) != os.path.realpath(REPO):
        raise RuntimeError('mitxgraders imported from %s, expected %s' % (where, REPO))


class AbortShard(BaseException):
    """Too many confirmed non-terminating calls: stop this shard's workload, keep what was recorded."""


class WatchdogFired(BaseException):
    """CPU-time budget exceeded.  BaseException: passes through `except Exception`."""


def _alarm(signum, frame):
    raise WatchdogFired()


@contextmanager
def cpu_budget(seconds):
    """Raise WatchdogFired in the running code once it used `seconds` of CPU time."""
    old = signal.signal(signal.SIGVTALRM, _alarm)
    signal.setitimer(signal.ITIMER_VIRTUAL, seconds)
    try:
        yield
    finally:
        signal.setitimer(signal.ITIMER_VIRTUAL, 0)
        signal.signal(signal.SIGVTALRM, old)


def jsonable(obj, depth=0):
    """Best-effort conversion of anything into JSON-able data (for witnesses/samples)."""
    import numpy as np
    if depth > 8:
        return '...'
    if obj is None or isinstance(obj, (bool, int, str)):
        return obj
    if isinstance(obj, float):
        if obj != obj or obj in (float('inf'), float('-inf')):
            return repr(obj)
        return obj
    if isinstance(obj, complex):
        return repr(obj)
    if isinstance(obj, np.generic):
        return jsonable(obj.item(), depth + 1)
    if isinstance(obj, np.ndarray):
        return {'$array': jsonable(obj.tolist(), depth + 1)}
    if isinstance(obj, dict):
        return {str(k): jsonable(v, depth + 1) for k, v in obj.items()}
    if isinstance(obj, (list, tuple, set, frozenset)):
        seq = sorted(obj, key=repr) if isinstance(obj, (set, frozenset)) else obj
        out = [jsonable(v, depth + 1) for v in seq]
        return {'$tuple': out} if isinstance(obj, tuple) else out
    if isinstance(obj, BaseException):
        return {'$exc': type(obj).__name__, 'msg': str(obj)[:500]}
    r = repr(obj)
    return r if len(r) < 300 else r[:300] + '...'


def digest(obj):
    """Stable short digest of a JSON-able structure (used for distinct-case counting)."""
    try:
        s = json.dumps(obj, sort_keys=True, default=repr)
    except (TypeError, ValueError):
        s = repr(obj)
    return hashlib.blake2b(s.encode('utf8', 'surrogatepass'), digest_size=8).hexdigest()


class Ctx(object):
    """Per-shard context: randomness, counters, verdict collection."""

    MAX_VIOLATIONS = 40
    MAX_SAMPLES = 6

    def __init__(self, prop, tier, seed, shard, nshards):
        self.prop, self.tier, self.seed = prop, tier, seed
        self.shard, self.nshards = shard, nshards
        self.rng = random.Random('%s/%s/%s/%s' % (prop, tier, seed, shard))
        self.evaluations = 0
        self.distinct = set()
        self.counters = Counter()
        self.samples = []
        self.violations = []
        self.viol_keys = Counter()
        self.notes = {}
        self.exhaustive = {}
        self.max_cpu = 0.0
        self.inconclusive = []
        self.case_no = 0
        self.confirmed_hangs = 0
        self.partial_path = None

    # ---- tiers / sharding
    @property
    def quick(self):
        return self.tier == 'quick'

    def n(self, quick, thorough):
        """Pick a workload size by tier (total across shards; divided per shard)."""
        total = quick if self.quick else thorough
        return max(1, total // self.nshards)

    def pick(self, quick, thorough):
        return quick if self.quick else thorough

    def mine(self, index):
        """Shard an enumeration: is item `index` handled by this shard?"""
        return index % self.nshards == self.shard

    # ---- reproducible library randomness
    def seed_case(self, *parts):
        """Re-seed `random` and `numpy.random` (used inside the library) for this case."""
        import numpy as np
        h = int(digest([self.prop, self.seed, parts]), 16)
        random.seed(h)
        np.random.seed(h % (2 ** 32))
        return h

    # ---- bookkeeping
    def ev(self, n=1):
        self.evaluations += n

    def count(self, name, n=1):
        self.counters[name] += n

    def nontrivial(self, obj):
        """Register a distinct non-trivial case (set of digests)."""
        self.distinct.add(obj if isinstance(obj, str) and len(obj) == 16 else digest(jsonable(obj)))

    def sample(self, obj, force=False):
        if len(self.samples) < self.MAX_SAMPLES or force:
            self.samples.append(jsonable(obj))

    def note(self, key, value):
        self.notes[key] = jsonable(value)

    def subspace(self, name, size, complete=True):
        """Record an exhaustively enumerated sub-space (this shard's part)."""
        d = self.exhaustive.setdefault(name, {'size': 0, 'complete': True})
        d['size'] += size
        d['complete'] = d['complete'] and complete

    def violation(self, key, msg, witness=None):
        """
        Record a violation.  `key` is the *mechanism key* (never random values); at most a
        few witnesses are kept per key.
        """
        self.viol_keys[key] += 1
        if self.viol_keys[key] <= 2 and len(self.violations) < self.MAX_VIOLATIONS:
            self.violations.append({
                'key': key, 'msg': msg[:2000], 'witness': jsonable(witness),
                'shard': self.shard, 'nshards': self.nshards,
            })
            if self.viol_keys[key] == 1 and self.partial_path:
                # first sighting of a mechanism: persist it, so that it survives even if this shard is later
                # stopped by the wall-clock watchdog (e.g. a change that makes many calls hang)
                try:
                    with open(self.partial_path + '.tmp', 'w') as f:
                        json.dump(self.result(), f)
                    os.replace(self.partial_path + '.tmp', self.partial_path)
                except (OSError, TypeError, ValueError):
                    pass

    def inconclusive_because(self, reason):
        self.inconclusive.append(reason)

    # ---- guarded calls
    def timed(self, fn, *args, **kwargs):
        """Call fn under the CPU watchdog; returns ('ok', value) | ('exc', exception) |
        ('hang', None).  A first watchdog firing is retried alone with a 20x budget."""
        budget = kwargs.pop('_budget', 4.0)
        if self.confirmed_hangs >= 8:
            raise AbortShard()
        # once a non-terminating call has been confirmed with the long budget, later firings of the short
        # budget are taken at face value (a change that makes a whole class of calls hang would otherwise
        # cost 21x the budget per case and run the shard into the wall-clock watchdog)
        budgets = (budget, budget * 20) if self.confirmed_hangs < 2 else (budget * 2,)
        for attempt, b in enumerate(budgets):
            t0 = time.process_time()
            try:
                with cpu_budget(b):
                    value = fn(*args, **kwargs)
                self.max_cpu = max(self.max_cpu, time.process_time() - t0)
                return 'ok', value
            except WatchdogFired:
                self.count('watchdog_fired_attempt_%d' % attempt)
                continue
            except Exception as exc:  # noqa
                self.max_cpu = max(self.max_cpu, time.process_time() - t0)
                return 'exc', exc
        self.confirmed_hangs += 1
        return 'hang', None

    def result(self):
        return {
            'prop': self.prop, 'shard': self.shard,
            'evaluations': self.evaluations,
            'distinct': sorted(self.distinct),
            'counters': dict(self.counters),
            'samples': self.samples,
            'violations': self.violations,
            'viol_keys': dict(self.viol_keys),
            'notes': self.notes,
            'exhaustive': self.exhaustive,
            'max_cpu': self.max_cpu,
            'inconclusive': self.inconclusive,
        }


def exc_name(exc):
    return type(exc).__name__


def is_mitx_error(exc):
    from mitxgraders.exceptions import MITxError
    return isinstance(exc, MITxError)


def is_student_facing(exc):
    from mitxgraders.exceptions import StudentFacingError
    return isinstance(exc, StudentFacingError)


def is_config_error(exc):
    from mitxgraders.exceptions import ConfigError
    return isinstance(exc, ConfigError)
