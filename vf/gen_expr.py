"""
gen_expr.py -- expression derivations, renderings and two independent reference evaluators.

AST nodes are tuples:
  ('num', text, value)            literal incl. optional suffix; value = mathematical value
  ('var', name)
  ('func', name, [args])
  ('neg', x)
  ('pow', base, [(neg_sign, x), ...])   a ^ [-]b ^ [-]c ...   (right-associative)
  ('par', [xs])                   a || b || c
  ('mul', first, [(op, x), ...])  op in '*', '/'   (left-associative)
  ('add', lead_plus, first, [(op, x), ...])  op in '+', '-'
  ('paren', x)
  ('arr', [xs])

Oracle 1 (generator side): eval_ast(node, env) with Python float/complex/numpy arithmetic under
the documented semantics.
Oracle 2 (string side): RefParser -- a hand-written recursive-descent parser over the *token
list* of a rendering, independent of pyparsing and of the AST; it also implements deliberately
wrong grammar variants used to measure how many cases discriminate each wrong hypothesis.
"""
import cmath
import math

import numpy as np

LEVEL = {'num': 5, 'var': 5, 'func': 5, 'paren': 5, 'arr': 5,
         'pow': 4, 'neg': 3, 'par': 2, 'mul': 1, 'add': 0}

SUFFIX_VALUES = {'%': 0.01, 'k': 1e3, 'M': 1e6, 'G': 1e9, 'T': 1e12,
                 'm': 1e-3, 'u': 1e-6, 'n': 1e-9, 'p': 1e-12}


class RefError(Exception):
    """The reference evaluation is undefined here (domain, shape, overflow...)."""

    def __init__(self, kind):
        Exception.__init__(self, kind)
        self.kind = kind


# ----------------------------------------------------------------------------- semantics
def is_arr(v):
    return isinstance(v, np.ndarray)


def _num(v):
    if isinstance(v, (bool, int)):
        return float(v)
    return v


def op_pow(a, b):
    if is_arr(a) or is_arr(b):
        if is_arr(a) and not is_arr(b) and a.ndim == 2 and a.shape[0] == a.shape[1] \
                and isinstance(b, float) and b.is_integer():
            try:
                return np.linalg.matrix_power(a, int(b))
            except np.linalg.LinAlgError:
                raise RefError('singular')
        raise RefError('shape')
    if isinstance(a, complex) and a.imag == 0 and a.real < 0 and not (
            not isinstance(b, complex) and float(b).is_integer()):
        # a complex-typed value exactly on the negative real axis: the result depends on the
        # sign of its zero imaginary part (an artefact of how it was computed, not mathematics)
        raise RefError('branchcut')
    try:
        r = a ** b
    except ZeroDivisionError:
        raise RefError('zerodiv')
    except OverflowError:
        raise RefError('overflow')
    return r


def op_neg(a):
    return -a


def op_par(xs):
    if any(is_arr(x) for x in xs):
        raise RefError('shape')
    if any(x == 0 for x in xs):
        return 0.0
    try:
        return 1.0 / sum(1.0 / x for x in xs)
    except ZeroDivisionError:
        raise RefError('zerodiv')


def op_mul(a, b):
    if is_arr(a) and is_arr(b):
        if a.ndim > 2 or b.ndim > 2:
            raise RefError('shape')
        try:
            r = np.dot(a, b)
        except ValueError:
            raise RefError('shape')
        if isinstance(r, np.ndarray) and r.size == 1:
            return r.item()
        if not isinstance(r, np.ndarray):
            return r.item() if hasattr(r, 'item') else r
        return r
    return a * b


def op_div(a, b):
    if is_arr(b):
        raise RefError('shape')
    try:
        if is_arr(a):
            if b == 0:
                raise RefError('zerodiv')
            return a / b
        return a / b
    except ZeroDivisionError:
        raise RefError('zerodiv')


def op_add(a, b, sign=1):
    if is_arr(a) != is_arr(b):
        # a nonzero scalar plus an array is an error; zero is a universal zero
        s, arr = (b, a) if is_arr(a) else (a, b)
        if s == 0:
            return a + sign * b if is_arr(a) else sign * b
        raise RefError('shape')
    if is_arr(a) and a.shape != b.shape:
        raise RefError('shape')
    return a + sign * b


def check_finite(v):
    arr = np.asarray(v)
    if np.any(np.isinf(arr)):
        raise RefError('overflow')
    if np.any(np.isnan(arr)):
        raise RefError('nan')
    return v


class Env(object):
    """Scope for the reference evaluators."""

    def __init__(self, variables, functions, suffixes=None):
        self.variables = variables
        self.functions = functions
        self.suffixes = SUFFIX_VALUES if suffixes is None else suffixes
        self.scale = 0.0

    def seen(self, v):
        try:
            m = float(np.max(np.abs(np.asarray(v)))) if np.size(v) else 0.0
        except (TypeError, ValueError):
            m = 0.0
        if m == m and m != float('inf'):
            self.scale = max(self.scale, m)
        return v

    def var(self, name):
        if name not in self.variables:
            raise RefError('undefined_variable')
        v = self.variables[name]
        if is_arr(v):
            return np.array(v)
        return _num(v)

    def call(self, name, args):
        if name not in self.functions:
            raise RefError('undefined_function')
        try:
            return self.functions[name](*args)
        except RefError:
            raise
        except (ValueError, ZeroDivisionError, OverflowError, TypeError):
            raise RefError('domain')


def eval_ast(node, env):
    k = node[0]
    if k == 'num':
        return env.seen(node[2])
    if k == 'var':
        return env.seen(env.var(node[1]))
    if k == 'func':
        args = [eval_ast(a, env) for a in node[2]]
        return env.seen(check_finite(env.call(node[1], args)))
    if k == 'paren':
        return eval_ast(node[1], env)
    if k == 'arr':
        items = [eval_ast(x, env) for x in node[1]]
        try:
            a = np.array(items)
        except ValueError:
            raise RefError('ragged')
        if a.dtype == object:
            raise RefError('ragged')
        return a
    if k == 'neg':
        return env.seen(op_neg(eval_ast(node[1], env)))
    if k == 'pow':
        # a ^ [-]b ^ [-]c : right to left, a sign negates everything to its right
        items = [(False, node[1])] + list(node[2])
        val = eval_ast(items[-1][1], env)
        for i in range(len(items) - 1, 0, -1):
            if items[i][0]:
                val = -val
            base = eval_ast(items[i - 1][1], env)
            val = env.seen(check_finite(op_pow(base, val)))
        return val
    if k == 'par':
        return env.seen(check_finite(op_par([eval_ast(x, env) for x in node[1]])))
    if k == 'mul':
        val = eval_ast(node[1], env)
        for op, x in node[2]:
            r = eval_ast(x, env)
            val = op_mul(val, r) if op == '*' else op_div(val, r)
            env.seen(check_finite(val))
        return val
    if k == 'add':
        val = eval_ast(node[2], env)
        for op, x in node[3]:
            r = eval_ast(x, env)
            val = op_add(val, r, 1 if op == '+' else -1)
            env.seen(check_finite(val))
        return val
    raise ValueError(k)


# ----------------------------------------------------------------------------- rendering
def toks(n):
    """Token list of a derivation with the parentheses the AST itself contains."""
    k = n[0]
    if k == 'num' or k == 'var':
        return [n[1]]
    if k == 'func':
        out = [n[1], '(']
        for i, a in enumerate(n[2]):
            if i:
                out.append(',')
            out += toks(a)
        return out + [')']
    if k == 'paren':
        return ['('] + toks(n[1]) + [')']
    if k == 'arr':
        out = ['[']
        for i, a in enumerate(n[1]):
            if i:
                out.append(',')
            out += toks(a)
        return out + [']']
    if k == 'neg':
        return ['-'] + toks(n[1])
    if k == 'pow':
        out = toks(n[1])
        for sign, x in n[2]:
            out.append('^')
            if sign:
                out.append('-')
            out += toks(x)
        return out
    if k == 'par':
        out = toks(n[1][0])
        for x in n[1][1:]:
            out += ['||'] + toks(x)
        return out
    if k == 'mul':
        out = toks(n[1])
        for op, x in n[2]:
            out += [op] + toks(x)
        return out
    if k == 'add':
        out = ['+'] if n[1] else []
        out += toks(n[2])
        for op, x in n[3]:
            out += [op] + toks(x)
        return out
    raise ValueError(k)


def add_redundant_parens(n, rng, p=0.3):
    """A copy of the derivation with redundant parentheses around random sub-derivations."""
    k = n[0]

    def rec(x):
        y = add_redundant_parens(x, rng, p)
        return ('paren', y) if rng.random() < p else y
    if k in ('num', 'var'):
        return n
    if k == 'func':
        return ('func', n[1], [rec(a) for a in n[2]])
    if k == 'paren':
        return ('paren', rec(n[1]))
    if k == 'arr':
        return ('arr', [rec(a) for a in n[1]])
    if k == 'neg':
        return ('neg', rec(n[1]))
    if k == 'pow':
        return ('pow', rec(n[1]), [(s, rec(x)) for s, x in n[2]])
    if k == 'par':
        return ('par', [rec(x) for x in n[1]])
    if k == 'mul':
        return ('mul', rec(n[1]), [(op, rec(x)) for op, x in n[2]])
    if k == 'add':
        return ('add', n[1], rec(n[2]), [(op, rec(x)) for op, x in n[3]])
    raise ValueError(k)


def join(tokens, rng=None, mode='plain'):
    """
    Render a token list.  Modes:
      plain   - no whitespace
      spaces  - U+0020 between tokens and *inside* numbers / names
      tabs    - tabs and line breaks between tokens only (never inside a token)
      mixed   - both
      emdash  - minus operators written as U+2014
    """
    if mode == 'plain' or rng is None:
        return ''.join(tokens)
    out = []
    for t in tokens:
        if mode in ('emdash',) and t == '-' and rng.random() < 0.7:
            t = u'—'
        elif mode == 'emdash' and t[0] in '0123456789.' and ('e-' in t or 'E-' in t) and rng.random() < 0.7:
            t = t.replace('e-', u'e—').replace('E-', u'E—')      # the exponent sign of a number literal
        if mode in ('spaces', 'mixed') and len(t) > 1 and rng.random() < 0.3:
            # spaces inside a token (number, name, '||'): they are stripped before parsing
            k = rng.randint(1, len(t) - 1)
            t = t[:k] + ' ' * rng.randint(1, 2) + t[k:]
        out.append(t)
        r = rng.random()
        if mode == 'spaces' and r < 0.5:
            out.append(' ' * rng.randint(1, 3))
        elif mode == 'tabs' and r < 0.5:
            out.append(rng.choice(['\t', '\n', '\r\n', ' \t', '\n ']))
        elif mode == 'mixed' and r < 0.6:
            out.append(rng.choice([' ', '  ', '\t', '\n', ' \t ']))
    s = ''.join(out)
    if mode in ('spaces', 'mixed') and rng.random() < 0.3:
        s = ' ' + s + '  '
    return s


# ----------------------------------------------------------------------------- string-side oracle
class RefParser(object):
    """
    Recursive descent over a token list.  variant:
      None         the documented grammar
      'par<mul'    parallel and product levels swapped
      'pow_left'   '^' left-associative
      'neg>pow'    unary minus binds tighter than '^'
      'mul_right'  '*' '/' right-associative
      'add_right'  '+' '-' right-associative
      'neg<par'    unary minus applied on top of a whole '||' chain
    """

    def __init__(self, tokens, env, variant=None):
        self.t, self.i, self.env, self.variant = list(tokens), 0, env, variant

    def peek(self):
        return self.t[self.i] if self.i < len(self.t) else None

    def take(self):
        tok = self.peek()
        self.i += 1
        return tok

    def parse(self):
        v = self.sum()
        if self.peek() is not None:
            raise SyntaxError('trailing %r' % self.peek())
        return v

    def sum(self):
        if self.peek() == '+':
            self.take()
        terms = [(1, self.level1())]
        while self.peek() in ('+', '-'):
            op = self.take()
            terms.append((1 if op == '+' else -1, self.level1()))
        if self.variant == 'add_right':
            # a - b + c  ->  a - (b + c)
            val = terms[-1][1]
            for j in range(len(terms) - 2, -1, -1):
                val = op_add(terms[j][1], val, terms[j + 1][0])
            return self.env.seen(check_finite(val))
        val = terms[0][1]
        for sgn, x in terms[1:]:
            val = self.env.seen(check_finite(op_add(val, x, sgn)))
        return val

    def level1(self):
        if self.variant == 'par<mul':
            # swapped levels: a*b||c -> (a*b)||c
            return self.parallel_chain(lambda: self.product_chain(self.negation))
        return self.product_chain(self.level_par)

    def product_chain(self, inner):
        items = [('*', inner())]
        while self.peek() in ('*', '/'):
            op = self.take()
            items.append((op, inner()))
        if self.variant == 'mul_right':
            val = items[-1][1]
            for j in range(len(items) - 2, -1, -1):
                op = items[j + 1][0]
                val = op_mul(items[j][1], val) if op == '*' else op_div(items[j][1], val)
            return self.env.seen(check_finite(val))
        val = items[0][1]
        for op, x in items[1:]:
            val = op_mul(val, x) if op == '*' else op_div(val, x)
            self.env.seen(check_finite(val))
        return val

    def parallel_chain(self, inner):
        xs = [inner()]
        while self.peek() == '||':
            self.take()
            xs.append(inner())
        if len(xs) == 1:
            return xs[0]
        return self.env.seen(check_finite(op_par(xs)))

    def level_par(self):
        if self.variant == 'neg<par':
            neg = False
            if self.peek() == '-':
                self.take()
                neg = True
            v = self.parallel_chain(self.power)
            return -v if neg else v
        return self.parallel_chain(self.negation)

    def negation(self):
        if self.peek() == '-':
            self.take()
            if self.variant == 'neg>pow':
                # -a^b -> (-a)^b
                return self.power(negate_first=True)
            return self.env.seen(op_neg(self.power()))
        return self.power()

    def power(self, negate_first=False):
        items = [(False, self.atom())]
        if negate_first:
            items[0] = (False, -items[0][1])
        while self.peek() == '^':
            self.take()
            sign = False
            if self.peek() == '-':
                self.take()
                sign = True
            items.append((sign, self.atom()))
        if len(items) == 1:
            return items[0][1]
        if self.variant == 'pow_left':
            val = items[0][1]
            for sign, x in items[1:]:
                val = self.env.seen(check_finite(op_pow(val, -x if sign else x)))
            return val
        val = items[-1][1]
        for j in range(len(items) - 1, 0, -1):
            if items[j][0]:
                val = -val
            val = self.env.seen(check_finite(op_pow(items[j - 1][1], val)))
        return val

    def atom(self):
        tok = self.take()
        if tok is None:
            raise SyntaxError('unexpected end')
        if tok == '(':
            v = self.sum()
            if self.take() != ')':
                raise SyntaxError('expected )')
            return v
        if tok == '[':
            items = [self.sum()]
            while self.peek() == ',':
                self.take()
                items.append(self.sum())
            if self.take() != ']':
                raise SyntaxError('expected ]')
            try:
                a = np.array(items)
            except ValueError:
                raise RefError('ragged')
            if a.dtype == object:
                raise RefError('ragged')
            return a
        if tok[0].isdigit() or tok[0] == '.':
            return self.env.seen(self.number(tok))
        if tok[0].isalpha():
            if self.peek() == '(':
                self.take()
                args = [self.sum()]
                while self.peek() == ',':
                    self.take()
                    args.append(self.sum())
                if self.take() != ')':
                    raise SyntaxError('expected )')
                return self.env.seen(check_finite(self.env.call(tok, args)))
            return self.env.seen(self.env.var(tok))
        raise SyntaxError('unexpected token %r' % tok)

    def number(self, tok):
        # split off a trailing suffix: letters / % after the numeric part
        j = len(tok)
        while j > 0 and (tok[j - 1].isalpha() or tok[j - 1] == '%'):
            j -= 1
        body, suf = tok[:j], tok[j:]
        # an exponent marker belongs to the number: 1e3, 1E-3  (body then ends in a digit)
        try:
            val = float(body)
        except ValueError:
            # e.g. '2e' + ... cannot happen for generated tokens
            raise SyntaxError('bad number %r' % tok)
        if suf:
            if suf not in self.env.suffixes:
                raise RefError('undefined_suffix')
            val *= self.env.suffixes[suf]
        return val


def split_number_token(tok):
    """'1.5e2%' -> ('1.5e2', '%'); '2e3' -> ('2e3', ''); '3k' -> ('3', 'k')."""
    import re
    m = re.match(r'^((?:\d+\.?\d*|\.\d+)(?:[eE][+-]?\d+)?)([A-Za-z%]*)$', tok)
    if not m:
        raise ValueError(tok)
    return m.group(1), m.group(2)


class RefParser2(RefParser):
    """RefParser with a proper number-token splitter (exponent marker vs. suffix)."""

    def number(self, tok):
        body, suf = split_number_token(tok)
        val = float(body)
        if suf:
            if suf not in self.env.suffixes:
                raise RefError('undefined_suffix')
            val *= self.env.suffixes[suf]
        return val


# ----------------------------------------------------------------------------- reference functions
def _real_or_complex(f_real, f_complex):
    def f(x):
        if is_arr(x):
            raise RefError('shape')
        if isinstance(x, complex):
            return f_complex(x)
        return f_real(x)
    return f


def _sqrt(x):
    if is_arr(x):
        raise RefError('shape')
    if isinstance(x, complex) and x.imag == 0 and x.real < 0:
        raise RefError('branchcut')
    if isinstance(x, complex) or x < 0:
        return cmath.sqrt(x)
    return math.sqrt(x)


def _atan_off_cut(z):
    # arctan has branch cuts on the imaginary axis beyond +-i: for a value exactly on the axis the side is
    # decided by the sign of its zero real part, an artefact of how the value was computed
    if z.real == 0 and abs(z.imag) >= 1:
        raise RefError('branchcut')
    return cmath.atan(z)


REF_FUNCTIONS = {
    'sin': _real_or_complex(math.sin, cmath.sin),
    'cos': _real_or_complex(math.cos, cmath.cos),
    'exp': _real_or_complex(math.exp, cmath.exp),
    'sqrt': _sqrt,
    'abs': lambda x: abs(x) if not is_arr(x) else (_ for _ in ()).throw(RefError('shape')),
    're': lambda x: (x.real if isinstance(x, complex) else x) if not is_arr(x) else np.real(x),
    'im': lambda x: (x.imag if isinstance(x, complex) else 0.0) if not is_arr(x) else np.imag(x),
    'conj': lambda x: (x.conjugate() if isinstance(x, complex) else x) if not is_arr(x) else np.conj(x),
    'tanh': _real_or_complex(math.tanh, cmath.tanh),
    'cosh': _real_or_complex(math.cosh, cmath.cosh),
    'arctan': _real_or_complex(math.atan, lambda z: _atan_off_cut(z)),
}

USER_FUNCTIONS_REF = {
    'f': lambda a, b: a + 2 * b,
    'g': lambda x: x * x + 1,
    'h': lambda a, b, c: a - b * c,
    'F': lambda x: 3 * x,
}
USER_FUNCTIONS_LIB = {
    'f': lambda a, b: a + 2 * b,
    'g': lambda x: x * x + 1,
    'h': lambda a, b, c: a - b * c,
    'F': lambda x: 3 * x,
}
ARITY = {'sin': 1, 'cos': 1, 'exp': 1, 'sqrt': 1, 'abs': 1, 're': 1, 'im': 1, 'conj': 1,
         'tanh': 1, 'cosh': 1, 'arctan': 1, 'f': 2, 'g': 1, 'h': 3, 'F': 1}

CONSTANTS = {'i': 1j, 'j': 1j, 'e': math.e, 'pi': math.pi}

VAR_NAMES = ['x', 'X', 'y', 'x1', 'x_1', 'x_{1}', 'T_{ij}^{k}', "x'", "y''", 'theta', 'a', 'b',
             'c', 'd', 'aa', 'a_b2', 'z_{-2}', 'U^{3}', "w_1'", 'E', 'k', 'sinx', 'fx', 'pix', 'ex',
             'V^{-1}', 'q_{1}^{-2}', "R_{ab}^{-c}'"]

NUM_FORMS = [('1', 1.0), ('2', 2.0), ('3', 3.0), ('10', 10.0), ('0.5', 0.5), ('1.', 1.0),
             ('.5', 0.5), ('2.25', 2.25), ('1e3', 1e3), ('1E-3', 1e-3), ('2e+2', 2e2), ('1.5e1', 15.0),
             ('2.e0', 2.0), ('.5E1', 5.0), ('5%', 0.05), ('1.5e2%', 1.5), ('50%', 0.5), ('007', 7.0),
             ('0', 0.0), ('4', 4.0), ('12', 12.0), ('0.25', 0.25)]
METRIC_FORMS = [('2k', 2e3), ('3.3M', 3.3e6), ('7u', 7e-6), ('1.5m', 1.5e-3), ('4G', 4e9),
                ('2T', 2e12), ('8n', 8e-9), ('9p', 9e-12), ('1e3k', 1e6), ('.5k', 500.0),
                ('1.2345678p', 1.2345678e-12), ('2.5e-3p', 2.5e-15), ('9.1093837u', 9.1093837e-6), ('1.2345678901k', 1234.5678901)]


def make_bindings(rng, complex_values=False, names=None):
    """Random variable bindings (distinct moderate values, case-variants bound differently)."""
    out = {}
    for nm in (names or VAR_NAMES):
        v = round(rng.uniform(0.4, 3.2), 3)
        if rng.random() < 0.25:
            v = -v
        if complex_values and rng.random() < 0.6:
            v = complex(v, round(rng.uniform(-2, 2), 3))
        elif rng.random() < 0.15:
            v = int(round(v)) or 2   # python ints must behave as floats
        out[nm] = v
    return out


class Gen(object):
    """Random derivations of the expression grammar, typed (scalar / vector / matrix)."""

    def __init__(self, rng, var_names, func_names=None, metric=False, arrays=True, consts=True):
        self.rng = rng
        self.var_names = list(var_names)
        self.func_names = list(func_names if func_names is not None else ARITY)
        self.metric = metric
        self.arrays = arrays
        self.consts = consts
        self.used_vars, self.used_funcs, self.used_sufs = set(), set(), set()

    # -- helpers
    def wrap(self, node, min_level):
        return node if LEVEL[node[0]] >= min_level else ('paren', node)

    def num(self):
        forms = NUM_FORMS + (METRIC_FORMS if self.metric and self.rng.random() < 0.4 else [])
        text, val = self.rng.choice(forms)
        _, suf = split_number_token(text)
        if suf:
            self.used_sufs.add(suf)
        return ('num', text, val)

    def leaf(self):
        r = self.rng.random()
        if r < 0.45 and self.var_names:
            nm = self.rng.choice(self.var_names)
            self.used_vars.add(nm)
            return ('var', nm)
        if r < 0.55 and self.consts:
            nm = self.rng.choice(['i', 'j', 'e', 'pi'])
            self.used_vars.add(nm)
            return ('var', nm)
        return self.num()

    def scalar(self, depth, min_level=0):
        rng = self.rng
        if depth <= 0:
            return self.wrap(self.leaf(), min_level)
        kind = rng.choice(['add', 'add', 'mul', 'mul', 'par', 'neg', 'pow', 'pow', 'func', 'paren',
                           'leaf', 'dot'])
        if kind == 'leaf':
            node = self.leaf()
        elif kind == 'add':
            n = rng.randint(1, 3)
            node = ('add', rng.random() < 0.15, self.scalar(depth - 1, 1),
                    [(rng.choice('+-'), self.scalar(depth - 1, 1)) for _ in range(n)])
        elif kind == 'mul':
            n = rng.randint(1, 3)
            node = ('mul', self.scalar(depth - 1, 2),
                    [(rng.choice('*/'), self.scalar(depth - 1, 2)) for _ in range(n)])
        elif kind == 'par':
            node = ('par', [self.scalar(depth - 1, 3) for _ in range(rng.randint(2, 3))])
        elif kind == 'neg':
            node = ('neg', self.scalar(depth - 1, 4))
        elif kind == 'pow':
            n = rng.randint(1, 3)
            node = ('pow', self.scalar(depth - 1, 5),
                    [(rng.random() < 0.35, self.exponent(depth - 1)) for _ in range(n)])
        elif kind == 'func' and self.func_names:
            nm = rng.choice(self.func_names)
            self.used_funcs.add(nm)
            node = ('func', nm, [self.scalar(depth - 1, 0) for _ in range(ARITY[nm])])
        elif kind == 'dot' and self.arrays:
            n = rng.randint(2, 3)
            node = ('mul', self.vector(n, depth - 1, 2), [('*', self.vector(n, depth - 1, 2))])
        else:
            node = ('paren', self.scalar(depth - 1, 0))
        return self.wrap(node, min_level)

    def exponent(self, depth):
        """Exponents are kept small so that towers stay representable."""
        r = self.rng.random()
        if r < 0.6 or depth <= 0:
            text, val = self.rng.choice([('2', 2.0), ('3', 3.0), ('0.5', 0.5), ('1', 1.0), ('1.5', 1.5),
                                         ('2.', 2.0), ('.5', 0.5), ('0', 0.0), ('50%', 0.5)])
            if text.endswith('%'):
                self.used_sufs.add('%')
            return ('num', text, val)
        if r < 0.8 and self.var_names:
            nm = self.rng.choice(self.var_names)
            self.used_vars.add(nm)
            return ('var', nm)
        return ('paren', self.scalar(min(depth, 1), 0))

    def vector(self, n, depth, min_level=0):
        rng = self.rng
        if depth <= 0:
            return ('arr', [self.scalar(0, 0) for _ in range(n)])
        kind = rng.choice(['lit', 'lit', 'add', 'scale', 'scale_r', 'div', 'neg', 'paren', 'matvec'])
        if kind == 'lit':
            node = ('arr', [self.scalar(depth - 1, 0) for _ in range(n)])
        elif kind == 'add':
            node = ('add', False, self.vector(n, depth - 1, 1),
                    [(rng.choice('+-'), self.vector(n, depth - 1, 1))])
        elif kind == 'scale':
            node = ('mul', self.scalar(depth - 1, 2), [('*', self.vector(n, depth - 1, 2))])
        elif kind == 'scale_r':
            node = ('mul', self.vector(n, depth - 1, 2), [('*', self.scalar(depth - 1, 2))])
        elif kind == 'div':
            node = ('mul', self.vector(n, depth - 1, 2), [('/', self.scalar(depth - 1, 2))])
        elif kind == 'neg':
            node = ('neg', self.vector(n, depth - 1, 4))
        elif kind == 'matvec':
            m = rng.randint(2, 3)
            node = ('mul', self.matrix(n, m, depth - 1, 2), [('*', self.vector(m, depth - 1, 2))])
        else:
            node = ('paren', self.vector(n, depth - 1, 0))
        return self.wrap(node, min_level)

    def matrix(self, r, c, depth, min_level=0):
        rng = self.rng
        if depth <= 0:
            return ('arr', [('arr', [self.scalar(0, 0) for _ in range(c)]) for _ in range(r)])
        kind = rng.choice(['lit', 'lit', 'add', 'scale', 'matmul', 'pow'])
        if kind == 'lit':
            node = ('arr', [('arr', [self.scalar(depth - 1, 0) for _ in range(c)]) for _ in range(r)])
        elif kind == 'add':
            node = ('add', False, self.matrix(r, c, depth - 1, 1),
                    [(rng.choice('+-'), self.matrix(r, c, depth - 1, 1))])
        elif kind == 'scale':
            node = ('mul', self.scalar(depth - 1, 2), [('*', self.matrix(r, c, depth - 1, 2))])
        elif kind == 'matmul':
            k = rng.randint(2, 3)
            node = ('mul', self.matrix(r, k, depth - 1, 2), [('*', self.matrix(k, c, depth - 1, 2))])
        elif kind == 'pow' and r == c:
            text, val = rng.choice([('2', 2.0), ('3', 3.0), ('1', 1.0), ('0', 0.0), ('2.0', 2.0)])
            node = ('pow', self.matrix(r, c, depth - 1, 5), [(False, ('num', text, val))])
        else:
            node = ('arr', [('arr', [self.scalar(depth - 1, 0) for _ in range(c)]) for _ in range(r)])
        return self.wrap(node, min_level)


def close(a, b, scale, rel=1e-9):
    """Are two values (numbers / arrays) equal up to rounding relative to `scale`?"""
    a_arr, b_arr = np.asarray(a), np.asarray(b)
    if a_arr.shape != b_arr.shape:
        return False
    tol = rel * max(scale, float(np.max(np.abs(b_arr))) if b_arr.size else 0.0, 1e-300)
    return bool(np.all(np.abs(a_arr - b_arr) <= tol))
