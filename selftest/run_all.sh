#!/bin/bash
# usage: selftest/run_all.sh [PROP ...]   -- runs each seeded mutant of the given properties (default: all
# registered in MANIFEST) against that property's quick check; prints one line per mutant.
cd /verif
props="$@"; [ -z "$props" ] && props=$(/venv/bin/python -c "import json;print(' '.join(c['property_id'] for c in json.load(open('MANIFEST.json'))['checks']))")
for p in $props; do
  for d in seeded/$p-*; do [ -d "$d" ] || continue
    out=$(selftest/run_mutant.sh $d/patch.diff $p quick 2>&1); rc=$(echo "$out" | grep -o 'mutant-run rc=[0-9]*' | tail -1)
    mech=$(echo "$out" | grep -c 'mechanism=')
    echo "$(basename $d): $rc mechanisms=$mech $(echo "$out" | grep 'mechanism=' | head -2 | cut -c1-150 | tr '\n' ' ')"
  done
done
