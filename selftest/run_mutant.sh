#!/bin/bash
# usage: selftest/run_mutant.sh <patch.diff> <PROP> [tier] [extra PROPs...]
# Applies the patch to a scratch copy of /repo (in /dev/shm, removed afterwards) and runs the
# property's check against it with VERIF_REPO pointing there.  Evidence/replays of the mutant run
# go to a scratch dir, never to /verif/evidence.  Expected: exit 1 (violation detected).
patch="$(readlink -f "$1")"; prop="$2"; tier="${3:-quick}"
scratch=$(mktemp -d /dev/shm/vfmut.XXXXXX)
trap 'rm -rf "$scratch"' EXIT
mkdir -p "$scratch/repo" "$scratch/out"
(cd /repo && git ls-files -z | xargs -0 cp --parents -t "$scratch/repo")
(cd "$scratch/repo" && patch -p1 -s < "$patch") || { echo "PATCH FAILED"; exit 3; }
cd /verif
VERIF_REPO="$scratch/repo" VERIF_EVIDENCE_DIR="$scratch/out/ev" VERIF_REPLAY_DIR="$scratch/out/replays" \
  VERIF_WORK_DIR="$scratch/out/work" /venv/bin/python -m vf.run "$prop" --tier "$tier"
rc=$?
echo "mutant-run rc=$rc"
exit $rc
