#!/bin/bash
# usage: selftest/import_seeded.sh <src-dir with patch.diff demo.py meta.json> <seeded-id>
# Confirms (in a scratch copy of /repo's HEAD under /dev/shm, removed afterwards) that the patch
# applies, that demo.py passes without it and fails with it, and that the repository's own test
# suite gives the baseline outcome with it; then stores it as /verif/seeded/<id>/.
src="$(readlink -f "$1")"; id="$2"
scratch=$(mktemp -d /dev/shm/vfimp.XXXXXX); trap 'rm -rf "$scratch"' EXIT
mkdir -p "$scratch/repo"; (cd /repo && git ls-files -z | xargs -0 cp --parents -t "$scratch/repo")
cd "$scratch/repo" || exit 2
/venv/bin/python "$src/demo.py" > "$scratch/clean.out" 2>&1; rc_clean=$?
patch -p1 -s < "$src/patch.diff" || { echo "$id: PATCH DOES NOT APPLY to current HEAD"; exit 3; }
/venv/bin/python "$src/demo.py" > "$scratch/mut.out" 2>&1; rc_mut=$?
tests=$(/tmp/wt/check_tests.sh "$scratch/repo" | head -1)
echo "$id: demo clean rc=$rc_clean, demo mutated rc=$rc_mut, tests: $tests"
if [ $rc_clean -eq 0 ] && [ $rc_mut -ne 0 ] && [[ "$tests" == SAME* ]]; then
  mkdir -p /verif/seeded/$id; cp "$src/patch.diff" "$src/demo.py" /verif/seeded/$id/
  /venv/bin/python - "$src/meta.json" /verif/seeded/$id/meta.json "$(git -C /repo rev-parse --short HEAD)" <<'PY'
import json,sys
m=json.load(open(sys.argv[1]))
m['confirmed']={'against_repo_head':sys.argv[3],'ran':['demo.py on clean scratch copy -> exit 0','demo.py on patched scratch copy -> exit != 0','repository test suite on patched copy -> same outcomes as baseline (363 passed, 36 scipy-related failures)']}
json.dump(m,open(sys.argv[2],'w'),indent=1)
PY
  echo "$id: STORED"
else
  echo "$id: NOT CONFIRMED"; tail -5 "$scratch/clean.out"; echo ---; tail -5 "$scratch/mut.out"
fi
