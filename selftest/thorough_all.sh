#!/bin/bash
# usage: selftest/thorough_all.sh [PROP ...] -- thorough tier of every (or the given) check on the unchanged tree, one
# after the other; prints one summary line per check.  Expected: rc=0 everywhere.
cd "$(dirname "$0")/.."
props="$@"; [ -z "$props" ] && props=$(/venv/bin/python -c "import json;print(' '.join(c['property_id'] for c in json.load(open('MANIFEST.json'))['checks']))")
for p in $props; do
  t0=$(date +%s)
  /venv/bin/python -m vf.run $p --tier thorough > /tmp/thorough_$p.out 2>&1; rc=$?
  echo "$p rc=$rc $(( $(date +%s) - t0 ))s $(grep -c -E 'VIOLATION|INCONCLUSIVE' /tmp/thorough_$p.out) $(tail -1 /tmp/thorough_$p.out | cut -c1-160)"
  grep -E 'VIOLATION|INCONCLUSIVE|mechanism=' /tmp/thorough_$p.out | head -5 | cut -c1-300
done
