#!/bin/bash
# usage: selftest/matrix.sh [out.tsv] -- every seeded mutant against every registered check (quick tier).
# One scratch copy of /repo per mutant (in /dev/shm, removed afterwards).  Output: mutant<TAB>check<TAB>rc<TAB>mechanisms
cd "$(dirname "$0")/.."
out="${1:-selftest/matrix.tsv}"; : > "$out"
checks=$(/venv/bin/python -c "import json;print(' '.join(c['property_id'] for c in json.load(open('MANIFEST.json'))['checks']))")
for d in seeded/C*; do [ -d "$d" ] || continue
  id=$(basename $d)
  scratch=$(mktemp -d /dev/shm/vfmat.XXXXXX)
  mkdir -p "$scratch/repo" "$scratch/out"
  (cd /repo && git ls-files -z | xargs -0 cp --parents -t "$scratch/repo")
  if ! (cd "$scratch/repo" && patch -p1 -s < "$OLDPWD/$d/patch.diff" >/dev/null 2>&1); then echo -e "$id\t-\tPATCHFAIL\t-" >> "$out"; rm -rf "$scratch"; continue; fi
  for p in $checks; do
    o=$(VERIF_REPO="$scratch/repo" VERIF_EVIDENCE_DIR="$scratch/out/ev" VERIF_REPLAY_DIR="$scratch/out/replays" VERIF_WORK_DIR="$scratch/out/work" /venv/bin/python -m vf.run $p --tier quick 2>&1)
    rc=$?
    mech=$(echo "$o" | grep -o 'mechanism=[^ ]*' | sed 's/mechanism=//' | head -3 | tr '\n' ',')
    echo -e "$id\t$p\t$rc\t$mech" >> "$out"
  done
  rm -rf "$scratch"
done
echo done
