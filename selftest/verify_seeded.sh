#!/bin/bash
# Re-confirms every stored seeded mutant against /repo's current HEAD: patch applies, demo passes on the
# clean copy and fails on the patched copy (tests are not re-run here unless FULL=1).
cd /verif
for d in seeded/C*; do [ -d "$d" ] || continue
  id=$(basename $d)
  scratch=$(mktemp -d /dev/shm/vfver.XXXXXX)
  mkdir -p "$scratch/repo"; (cd /repo && git ls-files -z | xargs -0 cp --parents -t "$scratch/repo")
  (cd "$scratch/repo" && /venv/bin/python /verif/$d/demo.py >/dev/null 2>&1); c=$?
  if (cd "$scratch/repo" && patch -p1 -s < /verif/$d/patch.diff >/dev/null 2>&1); then
    (cd "$scratch/repo" && /venv/bin/python /verif/$d/demo.py >/dev/null 2>&1); m=$?
    t=""
    if [ -n "$FULL" ]; then t=$(/tmp/wt/check_tests.sh "$scratch/repo" | head -1 | cut -c1-20); fi
    echo "$id: clean=$c mutated=$m $t"
  else
    echo "$id: PATCH DOES NOT APPLY"
  fi
  rm -rf "$scratch"
done
