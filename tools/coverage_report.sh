#!/bin/bash
# usage: tools/coverage_report.sh [PROP ...]  -- analysis aid, not a check: runs the quick tier of the given
# checks (default: all) with line+branch coverage of mitxgraders/ recorded in every worker, and prints the
# lines of the library no workload reached.  Results go to a scratch dir; evidence/ is not touched.
cd "$(dirname "$0")/.."
props="$@"; [ -z "$props" ] && props=$(/venv/bin/python -c "import json;print(' '.join(c['property_id'] for c in json.load(open('MANIFEST.json'))['checks']))")
d=$(mktemp -d /dev/shm/vfcov.XXXXXX)
for p in $props; do
  VF_COVERAGE_DIR=$d VERIF_EVIDENCE_DIR=$d/ev VERIF_REPLAY_DIR=$d/rp VERIF_WORK_DIR=$d/wk /venv/bin/python -m vf.run $p --tier quick 2>&1 | tail -1
done
cd $d && /venv/bin/python -m coverage combine --data-file=$d/.coverage $d/cov.* >/dev/null 2>&1
/venv/bin/python -m coverage report --data-file=$d/.coverage -m --skip-covered 2>&1 | cut -c1-400
rm -rf $d
